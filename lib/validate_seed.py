#!/usr/bin/env python3
"""validate_seed.py <seed-dir> : confirm a seeded change myself in a scratch worktree of /repo HEAD.
seed-dir has patch.diff, demo/<file>.rs (+README.txt), meta.json.
Checks: patch applies to HEAD; whole suite passes with it; demo fails with it; demo passes without it.
Writes validation.json into the seed dir."""
import json, os, re, subprocess, sys, shutil, time

seed = os.path.abspath(sys.argv[1])
name = os.path.basename(seed)
wt = "/tmp/seedv/" + name
tgt = "/tmp/seedv/target"
os.makedirs("/tmp/seedv", exist_ok=True)
env = dict(os.environ, CARGO_TARGET_DIR=tgt, CARGO_NET_OFFLINE="true")

def sh(cmd, cwd=None, timeout=3600):
    p = subprocess.run(cmd, shell=True, cwd=cwd, env=env, stdout=subprocess.PIPE, stderr=subprocess.STDOUT, timeout=timeout)
    return p.returncode, p.stdout.decode(errors="replace")

res = dict(seed=name, head=sh("git -C /repo rev-parse --short HEAD")[1].strip(), at=time.strftime("%Y-%m-%dT%H:%M:%SZ", time.gmtime()))
sh("git -C /repo worktree remove --force %s" % wt)
rc, out = sh("git -C /repo worktree add -q --detach %s HEAD" % wt)
try:
    rc, out = sh("git apply %s/patch.diff" % seed, cwd=wt)
    res["patch_applies"] = rc == 0
    if rc != 0:
        res["error"] = out[-500:]
        raise SystemExit
    demo = [f for f in os.listdir(seed + "/demo") if f.endswith(".rs")][0]
    readme = open(seed + "/demo/README.txt").read()
    crate = "des-cqueue" if "des-cqueue/tests" in readme else ("des-net-utils" if "des-net-utils/tests" in readme else "des")
    res["demo"] = demo
    res["crate"] = crate
    rc, out = sh("cargo nextest run --workspace --no-fail-fast --offline 2>&1 | tail -n 5", cwd=wt)
    m = re.search(r"(\d+) tests run: (\d+) passed", out)
    res["suite_with_change"] = m.group(0) if m else out[-300:]
    res["suite_passes_with_change"] = bool(m and m.group(1) == m.group(2) and int(m.group(1)) >= 221)
    os.makedirs("%s/%s/tests" % (wt, crate), exist_ok=True)
    shutil.copy(seed + "/demo/" + demo, "%s/%s/tests/%s" % (wt, crate, demo))
    tname = demo[:-3]
    cmd = "cargo test -p %s --test %s --offline 2>&1 | tail -n 15" % (crate, tname)
    rc, out = sh(cmd, cwd=wt)
    res["demo_with_change"] = out[-600:]
    res["demo_fails_with_change"] = "test result: FAILED" in out or "panicked" in out
    rc, out2 = sh("git apply -R %s/patch.diff" % seed, cwd=wt)
    rc, out = sh(cmd, cwd=wt)
    res["demo_without_change"] = out[-300:]
    res["demo_passes_without_change"] = "test result: ok" in out and "FAILED" not in out
    res["run"] = ["git worktree add (HEAD %s)" % res["head"], "git apply patch.diff", "cargo nextest run --workspace --no-fail-fast --offline", cmd, "git apply -R patch.diff", cmd]
finally:
    sh("git -C /repo worktree remove --force %s" % wt)
    json.dump(res, open(seed + "/validation.json", "w"), indent=1)
    ok = res.get("patch_applies") and res.get("suite_passes_with_change") and res.get("demo_fails_with_change") and res.get("demo_passes_without_change")
    print(name, "VALID" if ok else "INVALID", {k: res.get(k) for k in ("patch_applies", "suite_passes_with_change", "demo_fails_with_change", "demo_passes_without_change")})
