#!/bin/bash
# seedtest.sh <seed-dir> <PROP> [<PROP>...] : apply a seeded change to /repo, run the checks, undo it.
seed=$1; shift
cd /repo || exit 2
if ! git diff --quiet; then echo "/repo has uncommitted changes"; exit 2; fi
git apply "$seed/patch.diff" || { echo "patch does not apply"; exit 2; }
trap 'git -C /repo checkout -- . ' EXIT
cd /verif
for p in "$@"; do
  echo "=== $p against $(basename $seed)"
  VERIF_KEEP_LOGS=1 ./check $p $SEEDTEST_ARGS 2>&1 | grep -E "^\[|VIOLATION|INCONCLUSIVE|KNOWN|failed check|native" 
  echo "exit=$?"
done
