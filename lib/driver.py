#!/usr/bin/env python3
"""Solver-based checking driver for PetrichorIT/des (see /verif/DESIGN.md §2).

  check <ID> [--tier quick|thorough] [--replay <path>] [--only <substr>] [--keep]

 1. overlay  : rsync /repo (working tree) to a scratch dir, mount harness files as
               #[cfg(kani)] child modules (add-only, /repo untouched)
 2. encode   : cargo kani --only-codegen (goto programs regenerated from current source)
 3. decide   : one cargo-kani process per harness (CBMC + CaDiCaL), in parallel
 4. classify : oracle / expected-stop / unwinding / reach / sentinel / other
 5. replay   : failing checks are re-solved with concrete playback and executed natively
 6. findings : /verif/known_findings.json
 7. evidence : /verif/evidence/<ID>.json
Exit 0 = held on everything explored; 1 = replay-confirmed VIOLATION; 2 = inconclusive.
"""
import argparse
import concurrent.futures as cf
import json
import os
import random
import re
import resource
import shutil
import signal
import subprocess
import sys
import tempfile
import threading
import time

VERIF = os.path.dirname(os.path.dirname(os.path.abspath(__file__)))
REPO = os.environ.get("VERIF_REPO", "/repo")
sys.path.insert(0, os.path.join(VERIF, "lib"))
import props as P  # noqa: E402

ENV = dict(os.environ)
ENV["CARGO_NET_OFFLINE"] = "true"
ENV.pop("RUSTFLAGS", None)
ENV["CARGO_TERM_COLOR"] = "never"


def repo_rustflags():
    """cargo-kani sets RUSTFLAGS itself, which hides [build] rustflags of /repo/.cargo/config.toml
    (des needs --cfg tokio_unstable); forward them explicitly."""
    try:
        txt = open(os.path.join(REPO, ".cargo", "config.toml")).read()
        m = re.search(r"^rustflags\s*=\s*\[(.*?)\]", txt, re.M | re.S)
        if m:
            return " ".join(re.findall(r'"([^"]*)"', m.group(1)))
    except OSError:
        pass
    return ""


if repo_rustflags():
    ENV["RUSTFLAGS"] = repo_rustflags()


def log(*a):
    print(*a, flush=True)


# --------------------------------------------------------------------------- overlay
def make_overlay(prop, scratch, extra_test=None):
    """rsync /repo -> scratch/repo and mount the harness files of `prop`.
    extra_test = (harness_file_basename, rust_code) is appended to the scratch copy
    of that harness file (concrete playback tests)."""
    repo = os.path.join(scratch, "repo")
    subprocess.run(
        ["rsync", "-a", "--delete", "--exclude", "/target", "--exclude", ".git", REPO + "/", repo + "/"],
        check=True,
    )
    hdir = os.path.join(scratch, "harness")
    os.makedirs(hdir, exist_ok=True)
    cfgdir = os.path.join(repo, ".cargo")
    os.makedirs(cfgdir, exist_ok=True)
    with open(os.path.join(cfgdir, "config.toml"), "a") as f:
        f.write("\n[net]\noffline = true\n")
    mounted = []
    for m in prop["mounts"]:
        src = os.path.join(VERIF, "harness", m["harness"])
        dst = os.path.join(hdir, os.path.basename(m["harness"]))
        shutil.copyfile(src, dst)
        if extra_test and extra_test[0] == os.path.basename(m["harness"]):
            with open(dst, "a") as f:
                f.write("\n" + extra_test[1] + "\n")
        target = os.path.join(repo, m["file"])
        if not os.path.exists(target):
            raise RuntimeError("mount target missing in /repo: " + m["file"])
        with open(target, "a") as f:
            f.write('\n#[cfg(kani)] #[path = "%s"] %s;\n' % (dst, m["decl"]))
        mounted.append("%s <- %s" % (m["file"], m["harness"]))
    for pre in prop.get("prepend", []):
        target = os.path.join(repo, pre["file"])
        with open(target) as f:
            old = f.read()
        with open(target, "w") as f:
            f.write(pre["text"] + "\n" + old)
    return repo, mounted


# --------------------------------------------------------------------------- kani
CHECK_RE = re.compile(
    r"^Check (\d+): (.*?)\n\s*- Status: (\w+)\n\s*- Description: \"(.*?)\"\n\s*- Location: (.*?)$",
    re.M | re.S,
)


def parse_checks(text):
    out = []
    for m in CHECK_RE.finditer(text):
        out.append(dict(no=int(m.group(1)), name=m.group(2).strip(), status=m.group(3), desc=m.group(4), loc=m.group(5).strip()))
    return out


def limit_mem(gb):
    def f():
        os.setsid()
        b = int(gb * (1 << 30))
        resource.setrlimit(resource.RLIMIT_AS, (b, b))
    return f


LOOP_RE = re.compile(r"^Loop (\S+):\n\s+file (\S+) line (\d+) column \d+ function (.*)$", re.M)


def resolve_unwindset(h, tdir):
    """Per-loop bounds: h['unwindset'] = [(function-regex, loop-index-or-None, bound), ...] is resolved
    against the loops of the harness' goto binary (`cbmc --show-loops`), so that mangled names
    never appear in the registry.  Unwinding assertions stay on for every loop."""
    specs = h.get("unwindset")
    if not specs:
        return []
    short = h["fqn"].split("::")[-1]
    cands = []
    for root, _d, files in os.walk(os.path.join(tdir, "kani")):
        for f in files:
            if f.endswith(".out") and not f.endswith(".symtab.out") and re.search(r"\d+%s\.out$" % re.escape(short), f):
                cands.append(os.path.join(root, f))
    if not cands:
        raise RuntimeError("goto binary for %s not found" % short)
    out = subprocess.run(["cbmc", "--show-loops", cands[0]], stdout=subprocess.PIPE, stderr=subprocess.DEVNULL).stdout.decode(errors="replace")
    loops = [(m.group(1), m.group(4)) for m in LOOP_RE.finditer(out)]
    sel = []
    for (fre, idx, bound) in specs:
        hit = False
        for name, pretty in loops:
            if re.search(fre, pretty) and (idx is None or name.endswith(".%d" % idx)):
                sel.append("%s:%d" % (name, bound))
                hit = True
        if not hit:
            raise RuntimeError("unwindset: no loop matches %r in %s" % (fre, short))
    h["_unwindset_resolved"] = sel
    return ["--unwindset", ",".join(sel)]


def kani_cmd(prop, h, tdir, extra=()):
    cmd = ["cargo", "kani", "-p", prop["crate"], "-Z", "stubbing", "-Z", "unstable-options"]
    cmd += ["--harness", h["fqn"], "--exact", "--target-dir", tdir]
    cmd += list(extra)
    cb = list(h.get("cbmc_args", [])) + resolve_unwindset(h, tdir) + os.environ.get("VERIF_CBMC_ARGS", "").split()
    if h.get("fs"):
        cb += ["--max-field-sensitivity-array-size", str(h["fs"])]
    if cb:
        cmd += ["--cbmc-args"] + cb
    return cmd


def run_proc(cmd, cwd, logf, timeout, mem_gb):
    t0 = time.time()
    cmd = ["/usr/bin/time", "-f", "MAXRSS_KB=%M"] + list(cmd)
    with open(logf, "w") as lf:
        p = subprocess.Popen(cmd, cwd=cwd, env=ENV, stdout=lf, stderr=subprocess.STDOUT, preexec_fn=limit_mem(mem_gb))
        try:
            rc = p.wait(timeout=timeout)
            to = False
        except subprocess.TimeoutExpired:
            to = True
            try:
                os.killpg(p.pid, signal.SIGKILL)
            except ProcessLookupError:
                pass
            p.wait()
            rc = -9
    return rc, to, time.time() - t0


def classify(h, c):
    """-> class of a Kani check for harness h."""
    name, desc, loc = c["name"], c["desc"], c["loc"]
    if ".cover." in name or c["status"] in ("SATISFIED", "UNSATISFIABLE"):
        if desc.startswith("REACH"):
            return "reach"
        return "cover"
    if ".unwind." in name or desc.startswith("unwinding assertion") or "recursion unwinding" in desc or "VERIF-BOUND" in desc:
        return "unwinding"
    for pat in h.get("expect_fail", []):
        if re.search(pat, desc):
            return "expected-stop"
    if "/harness/" in loc and re.match(r"C\d\d", desc):
        return "oracle"
    return "other"


class MemBudget:
    """admit harness processes while the sum of their memory caps fits the machine.
    Cross-process (several ./check runs may be active): reservations are files
    <root>/budget/<pid>.<n> holding the GB reserved; stale ones (dead pid) are ignored."""

    def __init__(self, total):
        self.total = total
        self.dir = os.path.join(P.SCRATCH_ROOT, "budget")
        os.makedirs(self.dir, exist_ok=True)
        self.n = 0
        self.lock = threading.Lock()

    def _used(self):
        used = 0.0
        for f in os.listdir(self.dir):
            if f == "lock":
                continue
            try:
                pid = int(f.split(".")[0])
                os.kill(pid, 0)
                used += float(open(os.path.join(self.dir, f)).read() or 0)
            except (ValueError, OSError):
                try:
                    os.unlink(os.path.join(self.dir, f))
                except OSError:
                    pass
        return used

    def acquire(self, gb):
        import fcntl
        gb = min(gb, self.total)
        while True:
            with self.lock:
                with open(os.path.join(self.dir, "lock"), "w") as lf:
                    fcntl.flock(lf, fcntl.LOCK_EX)
                    if self._used() + gb <= self.total + 1e-9:
                        self.n += 1
                        tok = os.path.join(self.dir, "%d.%d" % (os.getpid(), self.n))
                        with open(tok, "w") as f:
                            f.write(str(gb))
                        return tok
            time.sleep(2)

    def release(self, tok):
        try:
            os.unlink(tok)
        except OSError:
            pass


BUDGET = MemBudget(float(os.environ.get("VERIF_MEM_GB", "52")))


def run_harness(prop, h, repo, scratch, tier_caps, idx):
    mem = h.get("mem", tier_caps["mem"])
    got = BUDGET.acquire(mem)
    try:
        return run_harness_(prop, h, repo, scratch, tier_caps, idx)
    finally:
        BUDGET.release(got)


def run_harness_(prop, h, repo, scratch, tier_caps, idx):
    tdir = os.path.join(scratch, "t_%d" % idx)
    subprocess.run(["cp", "-al", os.path.join(scratch, "t0"), tdir], check=True)
    logf = os.path.join(scratch, "logs", h["name"] + ".log")
    jf = os.path.join(scratch, "logs", h["name"] + ".json")
    timeout = h.get("timeout", tier_caps["timeout"])
    mem = h.get("mem", tier_caps["mem"])
    try:
        cmd = kani_cmd(prop, h, tdir, ["--export-json", jf])
    except RuntimeError as e:
        shutil.rmtree(tdir, ignore_errors=True)
        return dict(name=h["name"], fqn=h["fqn"], wall_s=0.0, rc=-1, timeout=False, bounds=h.get("bounds", ""), fs=h.get("fs"),
                    checks=[], verdict_line=None, stats={}, stubs=[], oom=False, maxrss_gb=None, error=str(e))
    rc, to, wall = run_proc(cmd, repo, logf, timeout, mem)
    text = open(logf, errors="replace").read()
    res = dict(name=h["name"], fqn=h["fqn"], wall_s=round(wall, 1), rc=rc, timeout=to, bounds=h.get("bounds", ""), fs=h.get("fs"))
    res["checks"] = parse_checks(text)
    res["verdict_line"] = "SUCCESSFUL" if "VERIFICATION:- SUCCESSFUL" in text else ("FAILED" if "VERIFICATION:- FAILED" in text else None)
    res["stats"] = {}
    res["oom"] = "run out of memory" in text or "std::bad_alloc" in text
    res["stubs"] = sorted(set(re.findall(r"^\s*- Stub: (.*)$", text, re.M)))
    m = re.search(r"MAXRSS_KB=(\d+)", text)
    res["maxrss_gb"] = round(int(m.group(1)) / 1048576.0, 2) if m else None
    try:
        j = json.load(open(jf))
        res["stats"] = j["cbmc"][0]["cbmc_stats"]
        res["prop_counts"] = j["property_details"][0]["property_details"]
    except Exception:
        pass
    if os.environ.get("VERIF_KEEP_LOGS"):
        d = os.path.join(VERIF, "logs", prop["id"])
        os.makedirs(d, exist_ok=True)
        shutil.copyfile(logf, os.path.join(d, h["name"] + ".log"))
    # free the disk of this harness' target dir early
    shutil.rmtree(tdir, ignore_errors=True)
    return res


def evaluate(h, res):
    """-> (status, failures, info) ; status in ok / fail / inconclusive"""
    fails, notes = [], []
    counts = dict(oracle=0, other=0, unwinding=0, reach=0, cover=0, **{"expected-stop": 0})
    if res["timeout"]:
        return "inconclusive", [], ["timeout after %ss" % res["wall_s"]], counts
    if res["verdict_line"] is None or not res["checks"]:
        return "inconclusive", [], [res.get("error") or "no verification verdict (rc=%s; compile error, OOM or crash)" % res["rc"]], counts
    reach_ok = 0
    incon = False
    if res.get("oom") or any(c["status"] == "ERROR" for c in res["checks"]):
        return "inconclusive", [], ["solver ran out of memory / solver error (cap %s GB)" % res.get("maxrss_gb")], counts
    for c in res["checks"]:
        cl = classify(h, c)
        c["class"] = cl
        counts[cl] += 1
        st = c["status"]
        if cl == "reach":
            if st == "SATISFIED":
                reach_ok += 1
            else:
                incon = True
                notes.append("vacuity: cover not satisfied: %s (%s)" % (c["desc"], st))
        elif cl == "cover":
            pass
        elif cl == "unwinding":
            if st != "SUCCESS":
                incon = True
                notes.append("unwinding assertion failed: %s @ %s" % (c["desc"], c["loc"][-120:]))
        elif cl == "expected-stop":
            pass
        else:
            if st == "FAILURE":
                fails.append(c)
            elif st in ("UNDETERMINED", "ERROR"):
                incon = True
                notes.append("undetermined: %s" % c["desc"])
    # expected-stop patterns that must actually fail (the guarded panic must be reachable)
    for pat in h.get("must_fail", []):
        if not any(re.search(pat, c["desc"]) and c["status"] == "FAILURE" for c in res["checks"]):
            incon = True
            notes.append("expected stop never reached: " + pat)
    if reach_ok == 0 and not fails:
        incon = True
        notes.append("no reachability witness satisfied")
    res["reach_ok"] = reach_ok
    if fails:
        return "fail", fails, notes, counts
    if incon:
        return "inconclusive", [], notes, counts
    return "ok", [], notes, counts


# --------------------------------------------------------------------------- replay
PLAYBACK_RE = re.compile(r"```\n(.*?)\n```", re.S)


def parse_playback(text):
    """-> list of (kind, description, testname, code)"""
    out = []
    for m in PLAYBACK_RE.finditer(text):
        blk = m.group(1)
        t = re.search(r"(#\[test\]\nfn (kani_concrete_playback_\w+)\(\) \{.*\n\})", blk, re.S)
        if not t:
            continue
        k = re.search(r"/// Check for `(\w+)`: \"(.*)\"\s*$", blk, re.M)
        kind, desc = (k.group(1), k.group(2).strip('"')) if k else ("?", "")
        out.append((kind, desc, t.group(2), t.group(1)))
    return out


def gen_playback(prop, h, repo, scratch, idx, tier_caps):
    """re-solve with concrete playback, return list of (testname, code)"""
    tdir = os.path.join(scratch, "tp_%d" % idx)
    subprocess.run(["cp", "-al", os.path.join(scratch, "t0"), tdir], check=True)
    logf = os.path.join(scratch, "logs", h["name"] + ".playback.log")
    cmd = kani_cmd(prop, h, tdir, ["-Z", "concrete-playback", "--concrete-playback=print"])
    # the trace (CBMC JSON) is parsed by kani-driver inside the same limit: give the playback run more room
    pmem = max(28, 2 * h.get("mem", tier_caps["mem"]))
    tok = BUDGET.acquire(pmem)
    try:
        run_proc(cmd, repo, logf, h.get("timeout", tier_caps["timeout"]) * 3, pmem)
    finally:
        BUDGET.release(tok)
    text = open(logf, errors="replace").read()
    shutil.rmtree(tdir, ignore_errors=True)
    if os.environ.get("VERIF_KEEP_LOGS"):
        d = os.path.join(VERIF, "logs", prop["id"])
        os.makedirs(d, exist_ok=True)
        shutil.copyfile(logf, os.path.join(d, h["name"] + ".playback.log"))
    return [(tn, code, kind, desc) for (kind, desc, tn, code) in parse_playback(text)]


def run_native(prop, hfile, code, testname, want_desc, scratch_parent=None, exact=True):
    """execute a playback test natively against the unstubbed real code.
    -> (reproduced: bool, detail: str)"""
    scratch = tempfile.mkdtemp(prefix="des-verif-replay-", dir=scratch_parent or P.SCRATCH_ROOT)
    try:
        repo, _ = make_overlay(prop, scratch, extra_test=(hfile, code))
        env = dict(ENV)
        env["CARGO_TARGET_DIR"] = os.path.join(scratch, "tn")
        cmd = ["cargo", "kani", "playback", "-Z", "concrete-playback", "-Z", "stubbing", "-p", prop["crate"], "--lib", "--", testname, "--nocapture", "--test-threads", "1"]
        p = subprocess.run(cmd, cwd=repo, env=env, stdout=subprocess.PIPE, stderr=subprocess.STDOUT, timeout=3600)
        out = p.stdout.decode(errors="replace")
        ran = re.search(r"running 1 test", out) is not None
        if not ran:
            return False, "native build/run failed:\n" + out[-3000:]
        failed = ("test result: FAILED" in out) or ("FAILED" in out and "panicked" in out) or p.returncode != 0
        if not failed:
            return False, "native run passed (counterexample does not reproduce)\n" + out[-1500:]
        core = want_desc.split(" @ ")[0]
        msgs = re.findall(r"panicked at [^\n]*\n([^\n]*)", out)
        if any(core[:60] in m or m.strip()[:60] in core for m in msgs if m.strip()):
            return True, "native panic: " + "; ".join(m.strip() for m in msgs)[:400]
        if re.search(r"signal: \d+|SIG(SEGV|ABRT|BUS|ILL)|double free|corrupt", out):
            return True, "native process aborted: " + out[-400:]
        if exact:
            return True, "native test failed with a different message: " + "; ".join(m.strip() for m in msgs)[:400]
        return False, "native test failed, but not at the reported check: " + "; ".join(m.strip() for m in msgs)[:400]
    except subprocess.TimeoutExpired:
        return False, "native replay timed out"
    finally:
        shutil.rmtree(scratch, ignore_errors=True)


def write_replay(prop, h, fail, testname, code, detail):
    os.makedirs(os.path.join(VERIF, "replay"), exist_ok=True)
    path = os.path.join(VERIF, "replay", "%s-%s.rs" % (prop["id"], h["name"]))
    hfile = os.path.basename(harness_file_of(prop, h))
    with open(path, "w") as f:
        f.write("// VERIF-REPLAY property=%s harness=%s file=%s test=%s\n" % (prop["id"], h["fqn"], hfile, testname))
        f.write("// failed check: %s\n// location: %s\n// native result: %s\n" % (fail["desc"], fail["loc"], detail.replace("\n", " ")[:500]))
        f.write("// Concrete playback test generated by Kani from the solver's counterexample; it is appended to the\n")
        f.write("// harness file and executed natively (no stubs) by `./check %s --replay <this file>`.\n" % prop["id"])
        f.write(code + "\n")
    return path


def harness_file_of(prop, h):
    mod = h["fqn"].split("::")[-2]
    for m in prop["mounts"]:
        if m["decl"].split()[-1] == mod:
            return m["harness"]
    raise RuntimeError("no mount for " + h["fqn"])


def replay_file(prop, path):
    txt = open(path).read()
    m = re.search(r"// VERIF-REPLAY property=(\S+) harness=(\S+) file=(\S+) test=(\S+)", txt)
    if not m:
        log("not a replay file")
        return 2
    want = re.search(r"// failed check: (.*)", txt).group(1)
    code = txt[txt.index("#[test]"):]
    ok, detail = run_native(prop, m.group(3), code, m.group(4), want)
    log(detail)
    if ok:
        log("VIOLATION property=%s replay=%s" % (prop["id"], path))
        return 1
    log("replay did not reproduce")
    return 0


# --------------------------------------------------------------------------- findings
def load_findings():
    try:
        return json.load(open(os.path.join(VERIF, "known_findings.json")))
    except FileNotFoundError:
        return {"known": [], "fixed": []}


def match_finding(findings, pid, h, c):
    for k in findings.get("known", []):
        if k["property"] != pid:
            continue
        if not re.search(k["harness"], h["name"]):
            continue
        if re.search(k["check"], c["desc"]):
            return k
    return None


# --------------------------------------------------------------------------- main
def main():
    ap = argparse.ArgumentParser()
    ap.add_argument("prop")
    ap.add_argument("--tier", default=os.environ.get("VERIF_TIER") or "quick")
    ap.add_argument("--replay")
    ap.add_argument("--only", help="substring filter on harness names (debugging; evidence is not written)")
    ap.add_argument("--keep", action="store_true")
    ap.add_argument("--thorough-only", action="store_true", help="run only the harnesses that the thorough tier adds (debugging; evidence is not written)")
    ap.add_argument("--no-replay", action="store_true")
    a = ap.parse_args()
    tier = os.environ.get("VERIF_TIER") or a.tier
    if tier not in ("quick", "thorough"):
        tier = "quick"
    if a.thorough_only:
        tier = "thorough"
    pid = a.prop
    if pid not in P.PROPS:
        log("unknown or not-applicable property " + pid)
        return 2
    prop = dict(P.PROPS[pid], id=pid)
    if a.replay:
        return replay_file(prop, a.replay)
    seed = int(os.environ.get("VERIF_SEED", "0") or 0)
    caps = P.TIERS[tier]
    exp = bool(os.environ.get("VERIF_EXPERIMENTAL"))
    hs = [h for h in prop["harnesses"] if h.get("tier", "quick") == "quick" or (tier == "thorough" and h.get("tier") == "thorough") or (exp and h.get("tier") == "experimental")]
    if a.only:
        hs = [h for h in hs if a.only in h["name"]]
    if a.thorough_only:
        hs = [h for h in prop["harnesses"] if h.get("tier") == "thorough"]
        a.only = a.only or "(thorough-only)"
    random.Random(seed).shuffle(hs)
    # longest first so the pool drains evenly
    hs.sort(key=lambda h: -h.get("cost", 0))
    t_start = time.time()
    os.makedirs(P.SCRATCH_ROOT, exist_ok=True)
    scratch = tempfile.mkdtemp(prefix="des-verif-%s-" % pid, dir=P.SCRATCH_ROOT)
    rc = 2
    try:
        os.makedirs(os.path.join(scratch, "logs"))
        repo, mounted = make_overlay(prop, scratch)
        # encode: regenerate goto programs from the current source
        blog = os.path.join(scratch, "logs", "build.log")
        cmd = ["cargo", "kani", "-p", prop["crate"], "-Z", "stubbing", "-Z", "unstable-options", "--only-codegen", "--target-dir", os.path.join(scratch, "t0")]
        brc, bto, bwall = run_proc(cmd, repo, blog, 1800, 24)
        if brc != 0:
            txt = open(blog, errors="replace").read()
            log("INCONCLUSIVE property=%s: harness build failed against the current /repo (rc=%s)" % (pid, brc))
            errs = re.findall(r"^(error(?:\[E\d+\])?: .*(?:\n\s+-->.*)?)", txt, re.M)
            log("\n".join(errs[:30]))
            if os.environ.get("VERIF_KEEP_LOGS"):
                d = os.path.join(VERIF, "logs", pid)
                os.makedirs(d, exist_ok=True)
                shutil.copyfile(blog, os.path.join(d, "build.log"))
            write_evidence(pid, tier, seed, prop, [], time.time() - t_start, 0, ["build failed"], mounted, bwall)
            return 2
        log("[%s] overlay built and encoded in %.0fs; %d harnesses, tier=%s" % (pid, bwall, len(hs), tier))
        jobs = min(prop.get("jobs", caps["jobs"]), max(1, len(hs)))
        results = []
        with cf.ThreadPoolExecutor(max_workers=jobs) as ex:
            futs = {ex.submit(run_harness, prop, h, repo, scratch, caps, i): h for i, h in enumerate(hs)}
            for f in cf.as_completed(futs):
                h = futs[f]
                r = f.result()
                st, fails, notes, counts = evaluate(h, r)
                r.update(status=st, fails=fails, notes=notes, counts=counts)
                results.append((h, r))
                log("  %-34s %-12s %6.0fs %5sGB checks=%d reach=%s %s" % (h["name"], st, r["wall_s"], r.get("maxrss_gb"), len(r["checks"]), r.get("reach_ok"), "; ".join(notes)[:200]))
        findings = load_findings()
        violations, known_hits, incon = [], [], []
        for idx, (h, r) in enumerate(results):
            if r["status"] == "inconclusive":
                incon.append((h, r))
            if r["status"] != "fail":
                continue
            new_fails = []
            for c in r["fails"]:
                k = match_finding(findings, pid, h, c)
                if k:
                    known_hits.append((k, h, c))
                else:
                    new_fails.append(c)
            if not new_fails:
                r["status"] = "known-finding"
                continue
            # replay
            if a.no_replay:
                violations.append((h, new_fails[0], None, "replay skipped"))
                continue
            if any(v[2] for v in violations) and not os.environ.get("VERIF_REPLAY_ALL"):
                # one natively confirmed counterexample is enough to report the property as violated;
                # further failing harnesses are listed without spending another replay on each
                log("  also failing (not replayed, a confirmed violation already exists): %s: %s" % (h["name"], new_fails[0]["desc"]))
                continue
            tests = gen_playback(prop, h, repo, scratch, idx, caps)
            hfile = os.path.basename(harness_file_of(prop, h))
            confirmed = None
            detail = "no concrete playback test generated"
            for c in new_fails:
                # prefer the test generated for exactly this check
                # (a failing `assert!(false)` sentinel gets no test of its own: fall back to the tests of
                #  the reachability covers on the same path and require the native panic message to match)
                exact = [t for t in tests if t[3] == c["desc"] and t[2] != "cover"]
                others = [t for t in tests if t not in exact]
                others.sort(key=lambda t: t[2] == "cover" and t[3].startswith("REACH end"))
                for (tn, code, _kind, _desc) in (exact + others)[:6]:
                    ok, detail = run_native(prop, hfile, code, tn, c["desc"], scratch, exact=bool(exact) and (tn, code, _kind, _desc) in exact)
                    if ok:
                        confirmed = (c, tn, code, detail)
                        break
                if confirmed:
                    break
            if confirmed:
                c, tn, code, detail = confirmed
                path = write_replay(prop, h, c, tn, code, detail)
                violations.append((h, c, path, detail))
            else:
                r["status"] = "inconclusive"
                r["notes"].append("counterexample did not reproduce natively: " + detail[:300])
                incon.append((h, r))
        seen = set()
        for (k, h, c) in known_hits:
            key = (k["id"])
            if key in seen:
                continue
            seen.add(key)
            log("KNOWN-FINDING: property=%s %s [%s: %s]" % (pid, k["what"], h["name"], c["desc"]))
        for (h, c, path, detail) in violations:
            log("  failed check in %s: %s @ %s" % (h["name"], c["desc"], c["loc"]))
            log("  " + (detail or "")[:300].replace("\n", " "))
            log("VIOLATION property=%s replay=%s" % (pid, path))
        for (h, r) in incon:
            log("INCONCLUSIVE property=%s harness=%s: %s" % (pid, h["name"], "; ".join(r["notes"])[:400]))
        wall = time.time() - t_start
        if not a.only:
            write_evidence(pid, tier, seed, prop, results, wall, len(violations), [k["id"] for (k, _, _) in known_hits], mounted, bwall)
        if violations:
            rc = 1
        elif incon:
            rc = 2
        else:
            rc = 0
        log("[%s] %s in %.0fs: %d harnesses ok, %d violations, %d inconclusive, %d known findings" % (
            pid, {0: "PASS", 1: "VIOLATION", 2: "INCONCLUSIVE"}[rc], wall,
            sum(1 for _, r in results if r["status"] in ("ok", "known-finding")), len(violations), len(incon), len(seen)))
        return rc
    finally:
        if not a.keep:
            shutil.rmtree(scratch, ignore_errors=True)
        else:
            log("scratch kept: " + scratch)


def write_evidence(pid, tier, seed, prop, results, wall, nviol, known, mounted, build_s):
    os.makedirs(os.path.join(VERIF, "evidence"), exist_ok=True)
    samples = []
    tot = dict(oracle=0, other=0, unwinding=0, reach=0, cover=0, **{"expected-stop": 0})
    queries = 0
    solver_s = 0.0
    symex_s = 0.0
    nontrivial = 0
    stubs = set()
    vccs = 0
    steps = 0
    for h, r in results:
        for k, v in r.get("counts", {}).items():
            tot[k] += v
        if r["status"] in ("ok", "fail", "known-finding"):
            queries += 1
        if r.get("reach_ok"):
            nontrivial += 1
        st = r.get("stats") or {}
        solver_s += st.get("runtime_decision_procedure_s", 0) or 0
        symex_s += st.get("runtime_symex_s", 0) or 0
        vccs += st.get("vccs_generated", 0) or 0
        steps += st.get("size_program_expression", 0) or 0
        stubs.update(r.get("stubs", []))
        samples.append(dict(
            harness=r["fqn"], status=r["status"], bounds=r["bounds"], wall_s=r["wall_s"],
            field_sensitivity=r.get("fs") or 64, peak_rss_gb=r.get("maxrss_gb"), unwindset=h.get("unwindset"),
            checks=r.get("counts"), reach_covers_satisfied=r.get("reach_ok"),
            symex_s=st.get("runtime_symex_s"), solver_s=st.get("runtime_decision_procedure_s"),
            program_steps=st.get("size_program_expression"), vccs=st.get("vccs_generated"),
            notes=r.get("notes"),
            failed=[c["desc"] for c in r.get("fails", [])],
        ))
    ev = dict(
        property_id=pid, tier=tier, seed=seed, level="model_checking",
        coverage=dict(
            evaluations=queries,
            distinct_nontrivial=nontrivial,
            rule="one evaluation = one harness decided by CBMC/CaDiCaL over ALL values of its kani::any() inputs inside the stated bounds (not a sample); non-trivial = the harness' REACH cover was SATISFIED (the assertion region is reachable, assumptions are satisfiable)",
            samples=samples,
            states=max(steps, 1) if results else 0,
            transitions=max(vccs, 1) if results else 0,
            traces_validated_against_impl=0,
            exhaustive=False,
            explanation="bounded symbolic model checking of the compiled real code (Kani 0.68 -> CBMC 6.11 -> CaDiCaL). states = total SSA program steps of the encodings, transitions = verification conditions generated. Exhaustive only relative to the per-harness bounds listed in samples[].bounds; unwinding assertions are on, so a too-small loop bound is reported, never silently truncated. " + prop.get("claim", ""),
            functions_encoded=prop.get("functions", []),
            stubs_applied=sorted(stubs),
            mounts=mounted,
            checks_discharged=tot,
            solver_time_s=round(solver_s, 2),
            symex_time_s=round(symex_s, 2),
            encode_build_s=round(build_s, 1),
            outside_bounds=prop.get("outside", []),
            known_findings_hit=sorted(set(known)),
        ),
        assumptions=prop.get("assumptions", []),
        wall_s=round(wall, 1),
        violations=nviol,
    )
    with open(os.path.join(VERIF, "evidence", pid + ".json"), "w") as f:
        json.dump(ev, f, indent=1)


if __name__ == "__main__":
    sys.exit(main())
