"""Registry: which harnesses decide which property (see DESIGN.md §4)."""
import os

SCRATCH_ROOT = os.environ.get("VERIF_SCRATCH", "/tmp/des-verif")

TIERS = {
    "quick": dict(timeout=900, mem=10, jobs=16),
    "thorough": dict(timeout=2700, mem=12, jobs=8),
}

CQ_PREPEND = [dict(file="des-cqueue/src/lib.rs", text="#![cfg_attr(kani, feature(allocator_api))]")]
CQ_MOUNTS = [
    dict(file="des-cqueue/src/stable/mod.rs", decl="pub mod verif_pub", harness="cq_overlay.rs"),
]


def H(mod, name, tier="quick", bounds="", **kw):
    d = dict(name=name, fqn=mod + "::" + name, tier=tier, bounds=bounds)
    d.update(kw)
    return d


CQ_STUBS = [
    "page_size::get -> constant 64 (FFI sysconf)",
    "CQueueLLAllocator::{allocate,deallocate} -> std::alloc (free-list allocator is the subject of C15 only)",
    "CQueue::new -> overlay constructor identical except VecDeque capacity 4 instead of 64 (c01_new_fields compares both)",
    "VecDeque::grow -> panic 'VERIF-BOUND' (reaching it makes the run INCONCLUSIVE; at most 3 events exist, capacity is 4)",
    "mem::forget of the queue at harness end (destruction is C15)",
]

PROPS = {}

# properties whose checks are registered in MANIFEST.json (measured below the tier caps)
REGISTERED = ["C01", "C03"]

NOT_APPLICABLE = [
    dict(property_id="C04", reason="2-run hyperproperty over the whole runtime incl. tokio scheduler, rand ChaCha (cpuid inline asm) and process-global counters; no kernel function decides it and whole-run encodings do not fit CBMC (a 2-event run is already >100k SSA steps)"),
    dict(property_id="C06", reason="decided inside tokio's LocalSet/current-thread scheduler (per-tick budget), reached only via block_on; tokio's runtime (thread-locals, parking, atomic wakers) is outside CBMC's reach and stubbing it would remove the subject"),
    dict(property_id="C13", reason="the property is about unwinding (catch_unwind); Kani has no unwinding semantics and cannot compile the call (unsupported try intrinsic); panics are modelled as abort"),
    dict(property_id="C17", reason="decisive code is Props::update_from/compartmentalize over serde_yml::Mapping (IndexMap + hashbrown SIMD probing + SipHash); a concrete one-entry map did not finish in 600 s under Kani and reports unsupported foreign/SIMD constructs; no separable string kernel exists"),
    dict(property_id="C20", reason="whole-simulation teardown through tokio runtimes, cyclic Arc graphs (the drop-glue recursion that must be stubbed out elsewhere) and global statics; only the event-set slice is decidable and is covered under C15"),
]

M01 = "stable::verif_c01"
PROPS["C01"] = dict(
    crate="des-cqueue",
    mounts=CQ_MOUNTS + [dict(file="des-cqueue/src/stable/mod.rs", decl="mod verif_c01", harness="c01.rs")],
    prepend=CQ_PREPEND,
    functions=["des_cqueue::CQueue::{new,add,cancel,fetch_next,len,is_empty,time}",
               "des_cqueue::stable::linked_list::DualLinkedList::{new,add,cancel,front_time,pop_min,is_empty}",
               "EventNode::{new,empty,into_inner}", "LocalBox::{new_in,from_raw_in,drop}", "std VecDeque push_back/pop_front/remove/iter().position"],
    level_text="Bounded model checking of the real des-cqueue code: for every timestamp pattern (ties, bucket boundaries, whole-year multiples, times equal to the current time) and every script shape listed in the evidence, the SAT solver shows that fetch order is non-decreasing, every non-cancelled event is returned exactly once with its timestamp, cancelled pending events never return, len is exact and cancel of a fetched handle is a no-op. Bounds: <=3 live events, timestamps <=5 ns, (n,t) in {(1,1),(1,2),(2,1),(2,2),(3,1)}. This is the right level because the queue logic is pointer/index arithmetic whose rare inputs (tie with current time, year wrap) a solver enumerates symbolically; it is not a proof for unbounded histories.",
    claim="Differential oracle: after every operation the real CQueue is compared with a reference priority list (<=3 events) kept in the harness.",
    assumptions=CQ_STUBS + ["timestamps < 1 s (Duration::new(0, ns)); at most 3 events alive; event-id wrap-around not explored"],
    outside=["more than 3 live events", "timestamps beyond the per-harness T (far-future outliers: scan is linear in T/t)", "usize id wrap", "Duration overflow near MAX", "BinaryHeap back end"],
    harnesses=[
        H(M01, "c01_new_fields", bounds="n in 1..=3, t in 1..=3 ns symbolic; real CQueue::new vs overlay constructor"),
        H(M01, "c01_order2_n1t1", bounds="n=1,t=1ns; add(a),add(b),drain; a,b<=3 symbolic"),
        H(M01, "c01_order2_n2t2", bounds="n=2,t=2ns; add(a),add(b),drain; a,b<=5 symbolic (two 'years')"),
        H(M01, "c01_order2_n3t1", bounds="n=3,t=1ns; add,add,drain; times<=4", tier="thorough"),
        H(M01, "c01_order3_n1t2", bounds="n=1,t=2ns; add,add,fetch,add,drain; times<=5"),
        H(M01, "c01_order3_n2t1", bounds="n=2,t=1ns; add,add,fetch,add,drain; times<=4"),
        H(M01, "c01_order3_n2t2", bounds="n=2,t=2ns; add,add,fetch,add,drain; times<=5", tier="thorough"),
        H(M01, "c01_cancel2_n1t1", bounds="n=1,t=1ns; add,add,[fetch],cancel(sym),drain; times<=3"),
        H(M01, "c01_cancel2_n2t2", bounds="n=2,t=2ns; add,add,[fetch],cancel(sym),drain; times<=5"),
        H(M01, "c01_cancel2_n2t1", bounds="n=2,t=1ns; add,add,[fetch],cancel(sym),drain; times<=4"),
        H(M01, "c01_script4_n1t2", bounds="n=1,t=2ns; 4 symbolic ops over {add,fetch,cancel(i)} then drain; times<=5"),
        H(M01, "c01_script4_n2t1", bounds="n=2,t=1ns; 4 symbolic ops then drain; times<=4", tier="thorough"),
        H(M01, "c01_script5_n2t2", bounds="n=2,t=2ns; 5 symbolic ops then drain; times<=5", tier="thorough"),
    ],
)

PROPS["C03"] = dict(
    crate="des-cqueue",
    mounts=PROPS["C01"]["mounts"],
    prepend=CQ_PREPEND,
    functions=PROPS["C01"]["functions"],
    level_text="Bounded model checking of the real des-cqueue code: for all timestamp patterns in range (any subset of <=3 events may tie, including ties with the current instant and ties straddling a year wrap) the returned sequence equals sort_by(time, current-instant class, scheduling order); asserted identically under several (n,t), so the order does not depend on queue parameters. Bounds as for C01.",
    claim="The returned sequence must equal the reference order sort_by(time, current-instant-class, scheduling sequence) for all timestamp patterns in range; the same expected order is asserted under different (n,t), i.e. independence of queue parameters.",
    assumptions=PROPS["C01"]["assumptions"],
    outside=PROPS["C01"]["outside"] + ["net layer buf_process flush order (read only)"],
    harnesses=[
        H(M01, "c03_ties2_n1t1", bounds="n=1,t=1ns; add,add,drain; times<=3"),
        H(M01, "c03_ties2_n2t2", bounds="n=2,t=2ns; add,add,drain; times<=5"),
        H(M01, "c03_ties3_n1t2", bounds="n=1,t=2ns; add,add,fetch,add,drain; times<=5"),
        H(M01, "c03_ties3_n2t1", bounds="n=2,t=1ns; add,add,fetch,add,drain; times<=4"),
        H(M01, "c03_ties3_n3t1", bounds="n=3,t=1ns; add,add,fetch,add,drain; times<=4", tier="thorough"),
        H(M01, "c03_adds3_n1t1", bounds="n=1,t=1ns; add,add,add,drain; times<=3"),
        H(M01, "c03_adds3_n2t2", bounds="n=2,t=2ns; add,add,add,drain; times<=5"),
        H(M01, "c03_script4_n2t1", bounds="n=2,t=1ns; 4 symbolic ops then drain; times<=4", tier="thorough"),
    ],
)


# --------------------------------------------------------------------------- des::runtime
RT_MOUNTS = CQ_MOUNTS + [dict(file="des/src/runtime/mod.rs", decl="mod verif_rt", harness="rt.rs")]
RT_STUBS = CQ_STUBS + [
    "VecDeque::remove -> element swaps + pop_back (std; avoids symbolic-length memmove)",
    "std::time::Instant::now / SystemTime::now / std::env::current_exe -> constants (FFI; profiler wall-clock fields not claimed)",
    "Builder written as a struct literal with a dummy RngCore (ThreadRng/StdRng reach getrandom/cpuid); real Builder::start_time and Builder::build are encoded",
    "Runtime constructed directly in state Running for harnesses that do not exercise build/start (no start banner)",
]
RT_FUNCS = ["des::runtime::Runtime::{add_event,add_event_in,dispatch_event,dispatch_all,dispatch_n_events,dispatch_events_until,finish,start,sim_time,num_events_*}",
            "des::runtime::Builder::{start_time,build}", "des::runtime::FutureEventSet (cqueue impl)::{new_with,add,fetch_next,len,is_empty}",
            "des::time::SimTime::{now,set_now,from_duration}", "des::runtime::RuntimeLimit::applies", "des_cqueue::CQueue::{add,fetch_next,len,is_empty} and linked list underneath"]
MRT = "runtime::verif_rt"

PROPS["C02"] = dict(
    crate="des", mounts=RT_MOUNTS, prepend=CQ_PREPEND, functions=RT_FUNCS,
    claim="Handlers log SimTime::now(); oracle = logged time equals scheduled time, non-decreasing, each event once; past-time scheduling must leave through the queue's panic (sentinel assertion after the call must be unreachable).",
    assumptions=RT_STUBS + ["timestamps < 1 s", "<= 2 events per run, handler schedules <= 1 follow-up"],
    outside=["BinaryHeap back end", "more than 2 events per harness", "handlers scheduling more than one follow-up", "start banner / profiler output"],
    harnesses=[
        H(MRT, "c02_clock_n1t2", bounds="n=1,t=2ns; event at t1<=3 spawning follow-up at delay d<=2 (0 allowed); 3 dispatch_event calls"),
        H(MRT, "c02_clock_n2t1", bounds="n=2,t=1ns; t1<=3, d<=2; 3 dispatch_event calls", tier="thorough"),
        H(MRT, "c02_two_n1t2", bounds="n=1,t=2ns; two pre-scheduled events at symbolic times<=3; dispatch_all"),
        H(MRT, "c02_two_n2t2", bounds="n=2,t=2ns; two pre-scheduled events, times<=5; dispatch_all", tier="thorough"),
        H(MRT, "c02_past_start_time", bounds="real Builder::start_time(s).build(), s<=4, add_event(t<s) must panic",
          expect_fail=["Cannot add past event to calender queue"], must_fail=["Cannot add past event to calender queue"]),
        H(MRT, "c02_future_start_time", bounds="real Builder::start_time(s).build(), s<=4, add_event(s<=t<=6) accepted, start(), dispatched at t"),
        H(MRT, "c02_past_after_dispatch", bounds="n=1,t=2ns; dispatch event at a in 1..=4, then add_event(t<a) must panic",
          expect_fail=["Cannot add past event to calender queue"], must_fail=["Cannot add past event to calender queue"]),
    ],
)

PROPS["C10"] = dict(
    crate="des", mounts=RT_MOUNTS, prepend=CQ_PREPEND, functions=RT_FUNCS,
    claim="Run A (uninterrupted) is the harness oracle: expected order = stable sort of the symbolic timestamps (C03 rule); run B (cut by dispatch_n_events / dispatch_events_until, then dispatch_all) is compared event by event.",
    assumptions=RT_STUBS + ["timestamps < 1 s", "3 events per run, cut after k in {1,2}"],
    outside=["BinaryHeap back end", "more than 3 events, several cuts per run", "handlers that schedule follow-ups across a cut"],
    harnesses=[
        H(MRT, "c10_cut_same_instant_n1t2", bounds="n=1,t=2ns; three events at one symbolic instant a<=3; dispatch_n_events(k in 1..=2) then dispatch_all"),
        H(MRT, "c10_cut_n1t2", bounds="n=1,t=2ns; three events at symbolic times<=3 (ties allowed); dispatch_n_events(k in 1..=2) then dispatch_all"),
        H(MRT, "c10_cut_n2t1", bounds="n=2,t=1ns; three events, times<=3; cut k in 1..=2", tier="thorough"),
        H(MRT, "c10_paused_add_n1t2", bounds="n=1,t=2ns; events a<=b<=3; dispatch_n_events(1); add_event(x in a..=4); dispatch_all"),
        H(MRT, "c10_until_n1t2", bounds="n=1,t=2ns; two events times<=3; dispatch_events_until(T'<=3) then dispatch_all"),
        H(MRT, "c10_until_n2t1", bounds="n=2,t=1ns; two events times<=3; dispatch_events_until(T'<=3)", tier="thorough"),
    ],
)

PROPS["C11"] = dict(
    crate="des", mounts=RT_MOUNTS + [dict(file="des/src/runtime/limit.rs", decl="mod verif_c11", harness="c11_limit.rs")],
    prepend=CQ_PREPEND, functions=RT_FUNCS + ["des::runtime::RuntimeLimit::{applies,add}"],
    claim="Kernel: applies() equals the logical formula for full-width symbolic itr/time and symbolic tree shape (depth<=3). Run: limit of each shape {None, EventCount, SimTime, And, Or, Builder-composed Or} with symbolic parameters over two symbolic-time events; dispatched prefix, remaining events and end time compared with the specification computed in the harness.",
    assumptions=RT_STUBS + ["kernel harnesses use no stubs and full-width u64/u32/usize values"],
    outside=["limit trees deeper than 3", "more than 2 events in the bounded run", "BinaryHeap back end"],
    harnesses=[
        H("runtime::limit::verif_c11", "c11_applies_leaf_and_none", bounds="full-width itr, time, n, T; leaf kinds symbolic"),
        H("runtime::limit::verif_c11", "c11_applies_depth2", bounds="And/Or of two symbolic leaves, full-width values"),
        H("runtime::limit::verif_c11", "c11_applies_depth3", bounds="symbolic shape: (a op b) op c / c op (a op b), ops symbolic, full-width values"),
        H("runtime::limit::verif_c11", "c11_add_composes_or", bounds="None.add(a).add(b).add(c), full-width values"),
        H(MRT, "c11_run2_none_n1t2", bounds="n=1,t=2ns; two events times<=3; limit None; dispatch_all + finish"),
        H(MRT, "c11_run2_count_n1t2", bounds="n=1,t=2ns; two events times<=3; EventCount(n<=3 symbolic)"),
        H(MRT, "c11_run2_time_n1t2", bounds="n=1,t=2ns; two events times<=3; SimTime(T<=4 symbolic)"),
        H(MRT, "c11_run2_and_n1t2", bounds="n=1,t=2ns; two events; And(EventCount(n<=3), SimTime(T<=4))"),
        H(MRT, "c11_run2_or_n1t2", bounds="n=1,t=2ns; two events; Or(EventCount(n<=3), SimTime(T<=4))"),
        H(MRT, "c11_run2_builder_or_n1t2", bounds="n=1,t=2ns; two events; None.add(SimTime).add(EventCount) as Builder::max_time().max_itr() composes"),
        H(MRT, "c11_run2_count_n2t1", bounds="n=2,t=1ns; two events times<=3; EventCount(n<=3)", tier="thorough"),
        H(MRT, "c11_run2_time_n2t1", bounds="n=2,t=1ns; two events times<=3; SimTime(T<=4)", tier="thorough"),
        H(MRT, "c11_run2_or_n2t1", bounds="n=2,t=1ns; two events; Or(EventCount, SimTime)", tier="thorough"),
    ],
)
