"""Registry: which harnesses decide which property (see DESIGN.md §4)."""
import os

SCRATCH_ROOT = os.environ.get("VERIF_SCRATCH", "/tmp/des-verif")

TIERS = {
    "quick": dict(timeout=900, mem=10, jobs=16),
    "thorough": dict(timeout=2700, mem=12, jobs=8),
}

CQ_PREPEND = [dict(file="des-cqueue/src/lib.rs", text="#![cfg_attr(kani, feature(allocator_api))]")]
CQ_MOUNTS = [
    dict(file="des-cqueue/src/stable/mod.rs", decl="pub mod verif_pub", harness="cq_overlay.rs"),
]


FETCH = r"CQueue::<.*>::(fetch_next|next_time)"


REALLOC = (r"realloc_words", None, 34)


def DISPATCH(k):
    """bound for the `while !self.dispatch_event() {}` loop of Runtime::dispatch_all"""
    return (r"Runtime::<.*>::dispatch_all", None, k)


def FINISH(k):
    """bound for the drain loop of Runtime::finish"""
    return (r"Runtime::<.*>::finish", None, k)


def H(mod, name, tier="quick", bounds="", fetch=None, **kw):
    """fetch = unwind bound for the two scan loops of CQueue::fetch_next (windows visited + 1)"""
    d = dict(name=name, fqn=mod + "::" + name, tier=tier, bounds=bounds)
    if fetch:
        extra = kw.pop("unwindset", [])
        d["unwindset"] = [(FETCH, None, fetch)] + extra
        d["bounds"] += "; fetch_next scan loops unwound %d%s, other loops 5" % (fetch, "".join(", %s loop %d" % (e[0].split("::")[-1], e[2]) for e in extra))
    d.update(kw)
    return d


CQ_STUBS = [
    "page_size::get -> constant 64 (FFI sysconf)",
    "CQueueLLAllocator::{allocate,deallocate} -> std::alloc (free-list allocator is the subject of C15 only)",
    "CQueue::new -> overlay constructor identical except VecDeque capacity 4 instead of 64 (c01_new_fields compares both)",
    "VecDeque::grow -> panic 'VERIF-BOUND' (reaching it makes the run INCONCLUSIVE; at most 3 events exist, capacity is 4)",
    "mem::forget of the queue at harness end (destruction is C15)",
]

PROPS = {}

# properties whose checks are registered in MANIFEST.json (measured below the tier caps)
REGISTERED = ["C01", "C02", "C03", "C05", "C07", "C08", "C09", "C10", "C11", "C12", "C14", "C15", "C16", "C19"]

NOT_APPLICABLE = [
    dict(property_id="C04", reason="2-run hyperproperty over the whole runtime incl. tokio scheduler, rand ChaCha (cpuid inline asm) and process-global counters; no kernel function decides it and whole-run encodings do not fit CBMC (a 2-event run is already >100k SSA steps)"),
    dict(property_id="C06", reason="decided inside tokio's LocalSet/current-thread scheduler (per-tick budget), reached only via block_on; tokio's runtime (thread-locals, parking, atomic wakers) is outside CBMC's reach and stubbing it would remove the subject"),
    dict(property_id="C13", reason="the property is about unwinding (catch_unwind); Kani has no unwinding semantics and cannot compile the call (unsupported try intrinsic); panics are modelled as abort"),
    dict(property_id="C17", reason="decisive code is Props::update_from/compartmentalize over serde_yml::Mapping (IndexMap + hashbrown SIMD probing + SipHash); a concrete one-entry map did not finish in 600 s under Kani and reports unsupported foreign/SIMD constructs; no separable string kernel exists"),
    dict(property_id="C18", reason="elaboration, dependency ordering, generics/inheritance expansion and instantiation run through FxHashMap/serde_yml (hashbrown: a two-key insert does not finish in 300 s under CBMC); of the string grammar only FieldDef::from_str is tractable (harnesses c18_field_def_* exist and pass but decide no clause of the statement on their own) - TypClause/ModuleGenericsDef/ConnectionEndpointDef::from_str (str::split two-way searcher + collect) do not leave symex in 10-45 min even on 2-3 byte inputs"),
    dict(property_id="C20", reason="whole-simulation teardown through tokio runtimes, cyclic Arc graphs (the drop-glue recursion that must be stubbed out elsewhere) and global statics; only the event-set slice is decidable and is covered under C15"),
]

M01 = "stable::verif_c01"
PROPS["C01"] = dict(
    crate="des-cqueue",
    mounts=CQ_MOUNTS + [dict(file="des-cqueue/src/stable/mod.rs", decl="mod verif_c01", harness="c01.rs")],
    prepend=CQ_PREPEND,
    functions=["des_cqueue::CQueue::{new,new_at,add,cancel,fetch_next,next_time,len,is_empty,time}",
               "des_cqueue::stable::linked_list::DualLinkedList::{new,add,cancel,front_time,pop_min,is_empty}",
               "EventNode::{new,empty,into_inner}", "LocalBox::{new_in,from_raw_in,drop}", "std VecDeque push_back/pop_front/remove/iter().position"],
    level_text="Bounded model checking of the real des-cqueue code: for every timestamp pattern (ties, bucket boundaries, whole-year multiples, times equal to the current time) and every script shape listed in the evidence, the SAT solver shows that fetch order is non-decreasing, every non-cancelled event is returned exactly once with its timestamp, cancelled pending events never return, len is exact, cancel of a fetched handle is a no-op, and the non-destructive next_time() peek (used by the runtime for limits) reports the next timestamp without changing later behaviour. Bounds: <=3 live events, timestamps <=7 ns, (n,t) in {(1,1),(1,2),(2,1),(2,2),(3,1),(3,2)}. This is the right level because the queue logic is pointer/index arithmetic whose rare inputs (tie with current time, year wrap) a solver enumerates symbolically; it is not a proof for unbounded histories.",
    claim="Differential oracle: after every operation the real CQueue is compared with a reference priority list (<=3 events) kept in the harness.",
    assumptions=CQ_STUBS + ["timestamps < 1 s (Duration::new(0, ns)); at most 3 events alive; event-id wrap-around not explored"],
    outside=["more than 3 live events", "timestamps beyond the per-harness T (far-future outliers: scan is linear in T/t)", "usize id wrap", "Duration overflow near MAX", "BinaryHeap back end"],
    harnesses=[
        H(M01, "c01_new_fields", bounds="n in 1..=3, t in 1..=3 ns symbolic; real CQueue::new vs overlay constructor"),
        H(M01, "c01_order2_n1t1", fetch=4, bounds="n=1,t=1ns; add(a),add(b),drain; a,b<=3 symbolic"),
        H(M01, "c01_order2_n2t2", fetch=4, bounds="n=2,t=2ns; add(a),add(b),drain; a,b<=5 symbolic (two 'years')"),
        H(M01, "c01_order2_n3t1", fetch=5, bounds="n=3,t=1ns; add,add,drain; times<=4", tier="thorough"),
        H(M01, "c01_order3_n1t2", fetch=4, bounds="n=1,t=2ns; add,add,fetch,add,drain; times<=5"),
        H(M01, "c01_order3_n2t1", fetch=5, bounds="n=2,t=1ns; add,add,fetch,add,drain; times<=4", tier="thorough", mem=20),
        H(M01, "c01_order3_n2t2", fetch=4, bounds="n=2,t=2ns; add,add,fetch,add,drain; times<=5", tier="thorough"),
        H(M01, "c01_cancel1_n2t2", fetch=4, bounds="n=2,t=2ns; add(a),cancel,add(b),drain; times<=5 (bucket boundary a==t inside)"),
        H(M01, "c01_cancel1_n2t1", fetch=5, bounds="n=2,t=1ns; add(a),cancel,add(b),drain; times<=4"),
        H(M01, "c01_cancel1_n3t1", fetch=5, mem=14, bounds="n=3,t=1ns; add(a),cancel,add(b),drain; times<=4"),
        H(M01, "c01_cancel_after_fetch_n2t2", fetch=5, mem=14, bounds="n=2,t=2ns; add,add,fetch,cancel(the pending one); times<=7 (clock unaligned inside a bucket, target up to 3 buckets ahead)"),
        H(M01, "c01_cancel_after_fetch_n3t2", fetch=5, mem=14, tier="thorough", bounds="n=3,t=2ns; add,add,fetch,cancel(the pending one); times<=7"),
        H(M01, "c01_peek_add_n2t1", fetch=6, mem=16, bounds="n=2,t=1ns; add,add,fetch,next_time,add(c>=current),drain; times<=4"),
        H(M01, "c01_peek_add_n1t2", fetch=4, mem=16, tier="thorough", bounds="n=1,t=2ns; add,add,fetch,next_time,add,drain; times<=5"),
        H(M01, "c01_cancel2_n1t1", fetch=4, bounds="n=1,t=1ns; add,add,[fetch],cancel(sym),drain; times<=3"),
        H(M01, "c01_cancel2_n2t2", fetch=4, bounds="n=2,t=2ns; add,add,[fetch],cancel(sym),drain; times<=5", tier="thorough", mem=20),
        H(M01, "c01_cancel2_n2t1", fetch=5, bounds="n=2,t=1ns; add,add,[fetch],cancel(sym),drain; times<=4", tier="thorough", mem=20),
        H(M01, "c01_script4_n1t2", fetch=4, bounds="n=1,t=2ns; 4 symbolic ops over {add,fetch,cancel(i)} then drain; times<=5", tier="thorough", mem=24),
        H(M01, "c01_script4_n2t1", fetch=5, mem=30, bounds="n=2,t=1ns; 4 symbolic ops then drain; times<=4", tier="experimental"),
        H(M01, "c01_script5_n2t2", fetch=4, mem=30, bounds="n=2,t=2ns; 5 symbolic ops then drain; times<=5", tier="experimental"),
    ],
)

PROPS["C03"] = dict(
    crate="des-cqueue",
    mounts=PROPS["C01"]["mounts"],
    prepend=CQ_PREPEND,
    functions=PROPS["C01"]["functions"],
    level_text="Bounded model checking of the real des-cqueue code: for all timestamp patterns in range (any subset of <=3 events may tie, including ties with the current instant and ties straddling a year wrap) the returned sequence equals sort_by(time, current-instant class, scheduling order); asserted identically under several (n,t), so the order does not depend on queue parameters. Bounds as for C01.",
    claim="The returned sequence must equal the reference order sort_by(time, current-instant-class, scheduling sequence) for all timestamp patterns in range; the same expected order is asserted under different (n,t), i.e. independence of queue parameters.",
    assumptions=PROPS["C01"]["assumptions"],
    outside=PROPS["C01"]["outside"] + ["net layer buf_process flush order (read only)"],
    harnesses=[
        H(M01, "c03_ties2_n1t1", fetch=4, bounds="n=1,t=1ns; add,add,drain; times<=3"),
        H(M01, "c03_ties2_n2t2", fetch=4, bounds="n=2,t=2ns; add,add,drain; times<=5"),
        H(M01, "c03_ties3_n1t2", fetch=4, bounds="n=1,t=2ns; add,add,fetch,add,drain; times<=5"),
        H(M01, "c03_ties3_n2t1", fetch=5, bounds="n=2,t=1ns; add,add,fetch,add,drain; times<=4"),
        H(M01, "c03_ties3_n3t1", fetch=5, mem=16, bounds="n=3,t=1ns; add,add,fetch,add,drain; times<=4", tier="thorough"),
        H(M01, "c03_adds3_n1t1", fetch=4, bounds="n=1,t=1ns; add,add,add,drain; times<=3"),
        H(M01, "c03_adds3_n2t2", fetch=4, bounds="n=2,t=2ns; add,add,add,drain; times<=5"),
        H(M01, "c03_script4_n2t1", fetch=5, bounds="n=2,t=1ns; 4 symbolic ops then drain; times<=4", tier="experimental", mem=30),
    ],
)


# --------------------------------------------------------------------------- des::runtime
RT_MOUNTS = CQ_MOUNTS + [dict(file="des/src/runtime/mod.rs", decl="mod verif_rt", harness="rt.rs")]
RT_STUBS = CQ_STUBS + [
    "VecDeque::remove -> element swaps + pop_back (std; avoids symbolic-length memmove)",
    "std::time::Instant::now / SystemTime::now / std::env::current_exe -> constants (FFI; profiler wall-clock fields not claimed)",
    "Builder written as a struct literal with a dummy RngCore (ThreadRng/StdRng reach getrandom/cpuid); real Builder::start_time and Builder::build are encoded",
    "Runtime constructed directly in state Running for harnesses that do not exercise build/start (no start banner)",
]
RT_FUNCS = ["des::runtime::Runtime::{add_event,add_event_in,dispatch_event,dispatch_all,dispatch_n_events,dispatch_events_until,finish,start,sim_time,num_events_*}",
            "des::runtime::Builder::{start_time,build}", "des::runtime::FutureEventSet (cqueue impl)::{new_with,add,fetch_next,len,is_empty}",
            "des::time::SimTime::{now,set_now,from_duration}", "des::runtime::RuntimeLimit::applies", "des_cqueue::CQueue::{add,fetch_next,len,is_empty} and linked list underneath"]
MRT = "runtime::verif_rt"

PROPS["C02"] = dict(
    crate="des", mounts=RT_MOUNTS, prepend=CQ_PREPEND, functions=RT_FUNCS,
    level_text="Bounded model checking of the real Runtime (cqueue back end): for all symbolic timestamps/delays in range the handler observes SimTime::now() == scheduled timestamp, events run once in non-decreasing time order, the clock never decreases; scheduling before the current simulated time leaves through the queue's panic for every start time <= 4 ns (real Builder::start_time/build) and after a dispatch, and scheduling at/after it succeeds; the clock kernel set_now/now is exact for full-width u64 s x u32 ns and one dispatch is exact for a full-width timestamp. Bounds: <= 2 events per run, one follow-up per handler, timestamps <= 6 ns (except the full-width kernels).",
    claim="Handlers log SimTime::now(); oracle = logged time equals scheduled time, non-decreasing, each event once; past-time scheduling must leave through the queue's panic (sentinel assertion after the call must be unreachable).",
    assumptions=RT_STUBS + ["timestamps < 1 s", "<= 2 events per run, handler schedules <= 1 follow-up"],
    outside=["BinaryHeap back end", "more than 2 events per harness", "handlers scheduling more than one follow-up", "start banner / profiler output"],
    harnesses=[
        H(MRT, "c02_clock_roundtrip_fullwidth", bounds="SimTime::set_now / now round trip, full-width u64 seconds x u32 nanos (no bound)"),
        H(MRT, "c02_dispatch_fullwidth", fetch=2, bounds="n=1, bucket width 2^63 s; one event at a full-width symbolic time < 2^63 s; one dispatch"),
        H(MRT, "c02_clock_n1t2", fetch=4, bounds="n=1,t=2ns; event at t1<=3 spawning follow-up at delay d<=2 (0 allowed); 3 dispatch_event calls"),
        H(MRT, "c02_clock_n2t1", fetch=7, mem=18, bounds="n=2,t=1ns; t1<=3, d<=2; 3 dispatch_event calls", tier="thorough"),
        H(MRT, "c02_two_n1t8", fetch=2, unwindset=[DISPATCH(4)], bounds="n=1,t=8ns (one window); two pre-scheduled events at symbolic times<=3; dispatch_all"),
        H(MRT, "c02_two_n1t2", fetch=3, unwindset=[DISPATCH(4)], tier="thorough", bounds="n=1,t=2ns; two pre-scheduled events at symbolic times<=3; dispatch_all"),
        H(MRT, "c02_two_n2t2", fetch=4, unwindset=[DISPATCH(4)], mem=20, bounds="n=2,t=2ns; two pre-scheduled events, times<=5; dispatch_all", tier="thorough"),
        H(MRT, "c02_past_start_time", bounds="real Builder::start_time(s).build(), s<=4, add_event(t<s) must panic",
          expect_fail=["Cannot add past event to calender queue"], must_fail=["Cannot add past event to calender queue"]),
        H(MRT, "c02_future_start_time", fetch=4, bounds="real Builder::start_time(s).build(), s<=4, add_event(s<=t<=6) accepted, start(), dispatched at t"),
        H(MRT, "c02_start_time_two_events_n2t3", fetch=4, mem=14, bounds="n=2,t=3ns (buckets wide enough to hold a non-start event of the start bucket); real Builder::start_time(s<=3).build(); two events at symbolic times in [s,5]; two dispatch_event calls"),
        H(MRT, "c02_past_after_dispatch", fetch=4, bounds="n=1,t=2ns; dispatch event at a in 1..=4, then add_event(t<a) must panic",
          expect_fail=["Cannot add past event to calender queue"], must_fail=["Cannot add past event to calender queue"]),
    ],
)

PROPS["C10"] = dict(
    crate="des", mounts=RT_MOUNTS, prepend=CQ_PREPEND, functions=RT_FUNCS,
    level_text="Bounded model checking of the real Runtime: a 3-event program with symbolic timestamps (ties allowed, incl. a three-way tie at one instant) is cut by dispatch_n_events(k) and resumed; the solver shows for all timestamps that exactly k events ran, the remaining count and reported time are as specified and the resumed run executes the same events in the same order at the same times as the uninterrupted run (whose order is the C03 rule computed in the harness); while paused, add_event(x) for every x >= sim_time() is accepted and ordered correctly; dispatch_events_until(t) dispatches exactly the events <= t and the configured limit is restored. Bounds: 3 events, one cut, timestamps <= 4 ns.",
    claim="Run A (uninterrupted) is the harness oracle: expected order = stable sort of the symbolic timestamps (C03 rule); run B (cut by dispatch_n_events / dispatch_events_until, then dispatch_all) is compared event by event.",
    assumptions=RT_STUBS + ["timestamps < 1 s", "3 events per run, cut after k in {1,2}"],
    outside=["BinaryHeap back end", "more than 3 events, several cuts per run", "handlers that schedule follow-ups across a cut"],
    harnesses=[
        H(MRT, "c10_cut1_same_instant_n1t8", fetch=2, unwindset=[DISPATCH(3)], mem=12, bounds="n=1,t=8ns (one window); three events at one symbolic instant a<=3; dispatch_n_events(1) then 3 dispatch_event calls"),
        H(MRT, "c10_cut1_n1t8", fetch=2, unwindset=[DISPATCH(3)], mem=12, bounds="n=1,t=8ns; three events a<=b<=c<=3 (ties allowed); dispatch_n_events(1) then dispatch_event calls"),
        H(MRT, "c10_cut2_n1t8", fetch=2, unwindset=[DISPATCH(4)], mem=12, tier="thorough", bounds="n=1,t=8ns; three events a<=b<=c<=3; dispatch_n_events(2) then dispatch_event calls"),
        H(MRT, "c10_paused_add_n1t8", fetch=2, unwindset=[DISPATCH(3)], mem=12, bounds="n=1,t=8ns; events a<=b<=3; dispatch_n_events(1); add_event(x in a..=4); one dispatch_event"),
        H(MRT, "c10_paused_add_n2t1", fetch=6, unwindset=[DISPATCH(3)], mem=30, tier="experimental", bounds="n=2,t=1ns (several buckets/windows between the events); events a<=b<=3; dispatch_n_events(1); add_event(x in a..=4); one dispatch_event"),
        H(MRT, "c10_until1_n1t8", fetch=2, unwindset=[DISPATCH(3)], bounds="n=1,t=8ns; one event at a<=3; dispatch_n_events(0); dispatch_events_until(T'<=3)"),
        H(MRT, "c10_until_n1t8", fetch=2, unwindset=[DISPATCH(4)], mem=18, tier="thorough", bounds="n=1,t=8ns; two events times<=3; dispatch_events_until(T'<=3) then dispatch_all"),
        H(MRT, "c10_cut1_same_instant_n1t2", fetch=3, unwindset=[DISPATCH(3)], mem=16, tier="thorough", bounds="n=1,t=2ns; three events at one symbolic instant a<=3; dispatch_n_events(1)"),
        H(MRT, "c10_cut2_same_instant_n1t2", fetch=3, unwindset=[DISPATCH(4)], mem=16, bounds="same, dispatch_n_events(2)", tier="thorough"),
        H(MRT, "c10_cut1_n1t2", fetch=3, unwindset=[DISPATCH(3)], mem=16, tier="thorough", bounds="n=1,t=2ns; three events a<=b<=c<=3; dispatch_n_events(1)"),
        H(MRT, "c10_cut2_n1t2", fetch=3, unwindset=[DISPATCH(4)], mem=16, bounds="same, dispatch_n_events(2)", tier="thorough"),
        H(MRT, "c10_cut1_n2t1", fetch=5, unwindset=[DISPATCH(3)], mem=30, bounds="n=2,t=1ns; three events a<=b<=c<=3; dispatch_n_events(1)", tier="experimental"),
        H(MRT, "c10_paused_add_n1t2", fetch=3, unwindset=[DISPATCH(3)], mem=20, tier="thorough", bounds="n=1,t=2ns; events a<=b<=3; dispatch_n_events(1); add_event(x in a..=4); one dispatch_event"),
        H(MRT, "c10_until_n1t2", fetch=3, unwindset=[DISPATCH(4)], mem=20, tier="thorough", bounds="n=1,t=2ns; two events times<=3; dispatch_events_until(T'<=3) then dispatch_all"),
        H(MRT, "c10_until_n2t1", fetch=5, unwindset=[DISPATCH(4)], mem=30, tier="experimental", bounds="n=2,t=1ns; two events times<=3; dispatch_events_until(T'<=3)"),
    ],
)

PROPS["C11"] = dict(
    crate="des", mounts=RT_MOUNTS + [dict(file="des/src/runtime/limit.rs", decl="mod verif_c11", harness="c11_limit.rs")],
    prepend=CQ_PREPEND, functions=RT_FUNCS + ["des::runtime::RuntimeLimit::{applies,add}"],
    level_text="Kernel: RuntimeLimit::applies equals the logical formula for full-width symbolic itr/time/parameters and And/Or trees (depth 2 quick, symbolic shape depth 3 thorough); add() composes with Or. Step: one dispatch_event from an arbitrary point of a run (symbolic dispatched count <= 4, two pending events at symbolic times) under each limit shape stops iff the specification says so and otherwise handles exactly the earliest event without losing the other; finish() returns every undelivered event with its timestamp in time order, the exact event_count and the time of the last dispatched event. Whole-run prefix property follows by induction over steps (argument, not solver-checked).",
    claim="Kernel: applies() equals the logical formula for full-width symbolic itr/time and symbolic tree shape (depth<=3). Step: ONE dispatch_event from an arbitrary point of a run (symbolic dispatched count, two pending events at symbolic times) under a limit of each shape {None, EventCount, SimTime, And, Or, Builder-composed Or} with symbolic parameters: it stops iff the specification says so, otherwise handles exactly the earliest event; finish() returns every undelivered event with its timestamp. By induction over steps a run dispatches exactly the longest admitted prefix (the induction itself is an argument, not solver-checked; the C10 cut harnesses exercise 3-event compositions).",
    assumptions=RT_STUBS + ["kernel harnesses use no stubs and full-width u64/u32/usize values"],
    outside=["limit trees deeper than 3", "more than 2 events in the bounded run", "BinaryHeap back end"],
    harnesses=[
        H("runtime::limit::verif_c11", "c11_applies_leaf_and_none", bounds="full-width itr, time, n, T; leaf kinds symbolic"),
        H("runtime::limit::verif_c11", "c11_applies_depth2", bounds="And/Or of two symbolic leaves, full-width values"),
        H("runtime::limit::verif_c11", "c11_applies_depth3", tier="thorough", bounds="symbolic shape: (a op b) op c / c op (a op b), ops symbolic, full-width values"),
        H("runtime::limit::verif_c11", "c11_add_composes_or", tier="experimental", mem=30, bounds="None.add(a).add(b).add(c), full-width values"),
        H(MRT, "c11_step_none_n1t8", fetch=2, bounds="n=1,t=8ns; itr<=4 symbolic, two pending events times<=3, limit None; ONE dispatch_event"),
        H(MRT, "c11_step_count_n1t8", fetch=2, bounds="same, EventCount(n<=4 symbolic)"),
        H(MRT, "c11_step_time_n1t8", fetch=2, bounds="same, SimTime(T<=4 symbolic)"),
        H(MRT, "c11_step_and_n1t8", fetch=2, bounds="same, And(EventCount(n), SimTime(T))"),
        H(MRT, "c11_step_or_n1t8", fetch=2, bounds="same, Or(EventCount(n), SimTime(T))"),
        H(MRT, "c11_step_builder_or_n1t8", fetch=2, bounds="same, None.add(SimTime(T)).add(EventCount(n)) as Builder::max_time().max_itr() composes"),
        H(MRT, "c11_finish_returns_remaining_n1t8", fetch=2, unwindset=[FINISH(4)], bounds="n=1,t=8ns; itr<=4, now<=2, two pending events at symbolic times in [now,3]; finish()"),
        H(MRT, "c11_step_count_n2t1", fetch=5, tier="thorough", bounds="n=2,t=1ns; EventCount step"),
        H(MRT, "c11_step_or_n2t1", fetch=5, tier="thorough", bounds="n=2,t=1ns; Or step"),
    ],
)


# --------------------------------------------------------------------------- C16 message bodies
M16 = "net::message::body::verif_c16"
PROPS["C16"] = dict(
    crate="des",
    mounts=[dict(file="des/src/net/message/body.rs", decl="mod verif_c16", harness="c16.rs")],
    prepend=[dict(file="des/src/lib.rs", text="#![cfg_attr(kani, feature(allocator_api))]")],
    functions=["des::net::message::Body::{new,new_non_clonable,is,try_cast,try_content,try_content_mut,try_clone,clone,drop,length}",
               "vtable::<T>/vtable_non_clonable::<T> and vtype_id/vclone/vdrop", "des::net::message::Message::{from_raw_parts,length,can_cast,try_cast,try_content,clone}",
               "MessageBody impls for primitives, (), Option, Result, [T;N], tuples, Vec, String, Box", "Header::byte_len"],
    level_text="Bounded model checking of the real Body/Message code with symbolic payload values: a body can be read, borrowed or cast only as its creation type (layout-compatible distinct type, the field type, ZSTs and a non-clonable type are all refused and leave the body intact), the value read equals the value put in, every stored value is dropped exactly once under every script of <=4 operations over {clone, try_clone, failed cast, successful cast, drop} on <=3 bodies (drop counters + CBMC's double-free/use-after-free checks on the real drop glue), Message::length == 64 + declared body length for the listed body types (incl. a physically wrapped VecDeque), and Message::try_clone yields an equal value of equal length or - for a non-clonable body - no clone at all. Derived (proc-macro) bodies and hash-based collections are outside.",
    claim="No stubs. Drop counting through static counters in the payload type; CBMC memory checks cover the type-erased Box round trips.",
    assumptions=["payload types A(u32), B(u32) (same layout), Zst, NC(u32) non-clonable; one instantiation each", "script length <= 4, <= 3 bodies alive"],
    outside=["derive(MessageBody) generated impls (proc-macro expands to ::des paths, not usable inside the crate)", "HashMap/HashSet/BTreeMap bodies (hashbrown outside the encoding)", "scripts longer than 4 operations", "channel charging (C07 uses Message::length)"],
    harnesses=[
        H(M16, "c16_wrong_type_cast_is_refused", bounds="symbolic u32 payload; casts to B(u32), u32 refused; cast to A ok; drop counters"),
        H(M16, "c16_zst_and_non_clonable", bounds="ZST body; non-clonable body with symbolic payload"),
        H(M16, "c16_script_drop_once", bounds="symbolic script of 4 ops over {clone,try_clone,failed cast,successful cast,drop} on 3 slots"),
        H(M16, "c16_message_length", bounds="u64,u8,(),Option<u32>,Result<u16,u64>,[u16;3],(u8,u32,u64), no body; symbolic values"),
        H(M16, "c16_message_length_collections", bounds="Vec<u32> len<=3, String len<=4, Box<u16>"),
        H(M16, "c16_message_cast", bounds="Message::{can_cast,try_content,try_cast,clone} with symbolic payload"),
        H(M16, "c16_message_length_wrapped_deque", bounds="VecDeque<u32> with capacity 4, physically wrapped, 3-4 symbolic elements"),
        H(M16, "c16_message_try_clone_keeps_body", bounds="Message::try_clone with a clonable / non-clonable body (symbolic), symbolic payload"),
    ],
)


# --------------------------------------------------------------------------- C15
M15 = "stable::alloc::verif_c15"
M15P = "stable::verif_c15p"
PROPS["C15"] = dict(
    crate="des-cqueue",
    mounts=CQ_MOUNTS + [dict(file="des-cqueue/src/stable/alloc.rs", decl="mod verif_c15", harness="c15.rs"),
                        dict(file="des-cqueue/src/stable/mod.rs", decl="mod verif_c15p", harness="c15_payload.rs")],
    prepend=CQ_PREPEND,
    functions=["CQueueLLAllocatorInner::{new,with_page_size,add_page,add_free_region,find_region,alloc_from_region,size_align,handle}",
               "CQueueLLAllocator::{allocate,deallocate}", "align_up", "ListNode::{start_addr,end_addr}",
               "CQueue::{add,cancel,fetch_next,drop}", "DualLinkedList::{add,cancel,pop_min,drop}", "LocalBox::{new_in,from_raw_in,drop}", "EventNode::into_inner"],
    level_text="Bounded model checking. (a) The integer kernels align_up / size_align / alloc_from_region satisfy their contracts for full-width or page-sized symbolic arguments. (b) The REAL page allocator (no stub, page size 128): for every script alloc(l0), alloc(l1), free(symbolic one), alloc(l2) with symbolic sizes 1..64 and alignments 1..16, every block is aligned, lies inside an owned page, is disjoint from every live block, allocated_mem equals the sum of live padded sizes, and a live block's bytes survive free/alloc of others; CBMC's pointer checks cover the free-list writes. (c) Payloads with a destructor (24 B align 8; 16 B align 16; u8) moved through the real queue are returned bit-for-bit and dropped exactly once on fetch / cancel / drop of the queue with events pending (real Drop for CQueue, DualLinkedList, LocalBox).",
    claim="Allocator harnesses use no allocator stub; payload harnesses stub the allocator to std::alloc so that CBMC's malloc model detects double free / use after free of nodes.",
    assumptions=["page_size::get -> 128 (FFI sysconf); real page size not explored", "allocator script length 3 allocations + 1 free; find_region recursion / free-list walk unwound 4 (unwinding assertions on)",
                 "payload harnesses: CQ stubs as in C01 (overlay constructor cap 4, allocator -> std::alloc, VecDeque::grow -> bound assertion, VecDeque::remove -> swaps)", "2 payloads per queue, timestamps <= 3 ns"],
    outside=["payloads of ~2 KiB, multi-page recycling over long histories", "real page_size", "more than 3 allocations", "allocation failure of the system allocator (Kani models malloc as infallible)"],
    harnesses=[
        H(M15, "c15_align_up_contract", bounds="addr full-width, align = 2^k k<=12"),
        H(M15, "c15_size_align_contract", bounds="size<=4096, align=2^k k<=6"),
        H(M15, "c15_alloc_from_region_contract", bounds="region offset<=128 (8-aligned), region size 16..128, request size 16..128 multiple of align, align 8..32"),
        H(M15, "c15_alloc2_align8", mem=12, bounds="REAL allocator, page 128; alloc(l0),alloc(l1); sizes 1..64 symbolic, align 8"),
        H(M15, "c15_alloc2_align1_16", mem=12, bounds="REAL allocator, page 128; alloc(size 1..64, align 1), alloc(size 1..64, align 16)"),
        H(M15, "c15_alloc_free_alloc_align8", mem=12, bounds="REAL allocator, page 128; alloc(l0),free,alloc(l1); sizes 1..64 symbolic, align 8"),
        H(M15, "c15_alloc_reuse_keeps_live_block", mem=16, timeout=1500, bounds="REAL allocator, page 128; alloc(24,align 8),alloc(32,align 8),free(second),alloc(size 1..64 symbolic, align 16)"),
        H(M15, "c15_alloc_script3", bounds="REAL allocator, page 128; alloc,alloc,free(sym),alloc; sizes 1..64, align 1..16 symbolic", tier="experimental", timeout=5400, mem=30),
        H(M15, "c15_alloc_page_limits", bounds="REAL allocator, page 128; one request of size 1..200, align 8"),
        H(M15P, "c15_payload_pending_n1t2", fetch=3, bounds="n=1,t=2ns; two D payloads at symbolic times<=3; queue dropped with both pending"),
        H(M15P, "c15_payload_fetch_n1t2", fetch=3, bounds="n=1,t=2ns; two payloads; fetch one, drop queue"),
        H(M15P, "c15_payload_cancel_n1t2", fetch=3, bounds="n=1,t=2ns; two payloads; cancel one (symbolic), drop queue"),
        H(M15P, "c15_payload_pending_n2t2", fetch=3, mem=16, bounds="n=2,t=2ns; both pending at drop", tier="thorough"),
        H(M15P, "c15_payload_fetch_n2t2", fetch=3, mem=18, bounds="n=2,t=2ns; fetch one, drop queue", tier="thorough"),
        H(M15P, "c15_payload_cancel_n2t2", fetch=3, mem=30, bounds="n=2,t=2ns; cancel one, drop queue", tier="experimental"),
        H(M15P, "c15_payload_types_roundtrip", fetch=3, bounds="A16 (align 16) and u8 payload, one event, symbolic time<=3"),
    ],
)


# --------------------------------------------------------------------------- C05 timers
DES_PREPEND = CQ_PREPEND + [dict(file="des/src/lib.rs", text="#![cfg_attr(kani, feature(allocator_api))]")]
M05 = "time::driver::verif_c05"
PROPS["C05"] = dict(
    crate="des",
    mounts=CQ_MOUNTS + [dict(file="des/src/time/driver.rs", decl="mod verif_c05", harness="c05.rs"),
                        dict(file="des/src/time/sleep.rs", decl="mod verif_c05_acc", harness="c05_sleep_acc.rs"),
                        dict(file="des/src/time/interval.rs", decl="mod verif_c05_iacc", harness="c05_interval_acc.rs")],
    prepend=DES_PREPEND,
    functions=["des::time::driver::TimerQueue::{new,add,next,bump}", "TimerSlot::{new,add,remove,wake_all}", "TimerSlotEntryHandle::{drop,resolve,reset}", "Driver::{new,set,with_current}",
               "des::time::Sleep::{new,poll,reset,reset_inner,deadline}", "des::time::Timeout::poll / timeout_at", "des::time::Interval::{poll_tick}, interval_at, MissedTickBehavior::next_timeout"],
    level_text="Bounded model checking at step level: each operation of the per-module timer queue and each poll of Sleep/Timeout/Interval is executed once from a directly constructed valid state with symbolic deadlines, liveness flags and current time; the oracle states the property for that step (next() = earliest LIVE deadline; bump wakes exactly the due slots, each live timer exactly once; add/reset keep the queue strictly sorted with the timer registered exactly once at its deadline; a dropped timer is unregistered; Sleep completes iff deadline <= now and registers exactly once, also after reset; Timeout prefers the inner result; Interval ticks follow the period and the missed-tick formulas). Composition of steps over whole runs (and the tokio task wake path) is argued from these steps, not solver-checked.",
    claim="States are built through the private constructors of the queue (child module), empty slots are part of the valid states because TimerSlotEntryHandle::drop and Sleep::reset create them.",
    assumptions=["Arc::drop_slow -> no-op (TimerSlot<->TimerQueue cycle; destruction not claimed)", "VecDeque::{insert,remove} -> element-swap models (std)", "<= 3 slots, deadlines <= 8 ns, counting RawWaker instead of a tokio task waker",
                 "Driver::{set,unset,with_current}: thread_local! storage replaced by a static with identical bodies (kani-compiler ICE on TLS destructors); driver installed directly (no ModuleRef::activate)"],
    outside=["tokio task wake path and LocalSet polling (C06)", "more than 3 slots", "ModuleRef::activate/deactivate glue (needs ModuleContext; see C09 harnesses)", "whole-run composition of the steps"],
    harnesses=[
        H(M05, "c05_next_earliest_live", bounds="3 slots, strictly increasing symbolic deadlines<=7ns, symbolic liveness each"),
        H(M05, "c05_bump_one_slot", tier="experimental", mem=30, bounds="1 slot live/emptied, symbolic deadline<=5, now<=6"),
        H(M05, "c05_add_one_slot", tier="experimental", mem=30, bounds="1 slot + add at symbolic deadline 0..6 (before/equal/after)"),
        H(M05, "c05_drop_unregisters", bounds="add at symbolic deadline, resolve-or-not, drop handle"),
        H(M05, "c05_reset_moves_registration", tier="experimental", mem=30, bounds="add at symbolic deadline 1..6, reset to symbolic 1..6"),
        H(M05, "c05_sleep_reset_later", tier="experimental", mem=30, bounds="Sleep(deadline 3) polled at symbolic now in {0,1}, reset to 6 (concrete deadlines keep queue positions concrete), polled again"),
        H(M05, "c05_sleep_reset_earlier", tier="experimental", mem=30, bounds="Sleep(deadline 6) polled at now in {0,1}, reset to 3, polled again"),
        H(M05, "c05_sleep_first_poll", bounds="Sleep symbolic deadline<=6, now<=4, first poll"),
        H(M05, "c05_bump_exactly_due", tier="experimental", mem=30, bounds="2 slots (front one live or emptied), symbolic deadlines, symbolic now<=7ns"),
        H(M05, "c05_add_sorted_once", tier="experimental", mem=30, bounds="2 slots + add at symbolic deadline 0..7 (before/equal/between/after)"),
        H(M05, "c05_handle_drop_resolve_reset", tier="experimental", mem=30, bounds="1 slot + added timer; symbolic mode drop/resolve/reset(new deadline 1..7)"),
        H(M05, "c05_sleep_poll", tier="experimental", mem=30, bounds="Sleep with symbolic deadline<=6, now<=4; poll, re-poll, poll at symbolic later now<=7"),
        H(M05, "c05_sleep_reset_reregisters", tier="experimental", mem=30, bounds="registered Sleep (deadline 2..5, now=1), reset to symbolic 0..7, poll"),
        H(M05, "c05_timeout_poll", bounds="timeout_at(symbolic deadline<=6, inner ready flag symbolic), now<=4"),
        H(M05, "c05_interval_tick_period", tier="experimental", mem=30, bounds="interval_at(start<=3, period 1..3), now<=4; two poll_tick calls"),
        H(M05, "c05_missed_tick_formulas", bounds="scheduled<=1000ns, now in [scheduled,2000], period 1..1000ns; Burst/Delay/Skip"),
    ],
)


# --------------------------------------------------------------------------- net runtime kernels: C14, C09, C12
NR_MOUNTS = CQ_MOUNTS + [dict(file="des/src/net/runtime/mod.rs", decl="mod verif_nr", harness="nr.rs"),
                         dict(file="des/src/net/module/mod.rs", decl="pub(crate) mod verif_mod", harness="net_module_stub.rs")]
NR_STUBS = ["Harness::exec -> call the closure directly (real body: catch_unwind + tokio LocalSet::block_on; Kani cannot compile catch_unwind) - panics inside callbacks and task polling after the callback are not encoded",
            "AsyncCoreExt::new -> Rt::Shutdown without a tokio Builder (FFI getrandom)", "tracing::new_scope -> constant token (real body reaches mpsc send: kani-compiler ICE)",
            "Arc::drop_slow -> no-op (cyclic drop glue; destruction not claimed)", "standalone ModuleContext, recording ProcessingElements and Module"]
MNR = "net::runtime::verif_nr"
PROPS["C14"] = dict(
    crate="des", mounts=NR_MOUNTS, prepend=DES_PREPEND,
    functions=["des::net::processing::Processor::{new,incoming_upstream,incoming_downstream}", "ProcessingStack::{from,append}", "ModuleRef::{handle_message,at_sim_start,async_wakeup,upgrade_dummy}", "ModuleContext::standalone"],
    level_text="Bounded model checking of the real Processor / ModuleRef entry points with recording elements: for stacks of 0..3 elements and every assignment of pass/consume behaviour the solver shows event_start once per element in stack order, incoming in order until the first consumer, the handler iff nothing consumed, event_end once per element in reverse order; two consecutive events never interleave; start-up-stage and wake-up events are bracketed the same way. Emission order of sends during an event is outside (global buffer + run loop).",
    claim="The expected call log is computed in the harness from the symbolic consume flags and compared entry by entry with the recorded log.",
    assumptions=NR_STUBS, outside=["stacks deeper than 3", "emission order of messages sent during the event (buf_process)", "Module::stack() supplied per module through SimBuilder", "at_sim_end (tokio join loop)"],
    harnesses=[
        H(MNR, "c14_message_stack0", bounds="empty stack; one message event"),
        H(MNR, "c14_message_stack1", bounds="1 element, consume flag symbolic"),
        H(MNR, "c14_message_stack2", bounds="2 elements, consume flags symbolic"),
        H(MNR, "c14_message_stack3", bounds="3 elements, consume flags symbolic"),
        H(MNR, "c14_two_events_stack2", bounds="2 elements, two consecutive message events"),
        H(MNR, "c14_other_events_stack2", bounds="2 pass-through elements; event kind symbolic in {start-up stage 0/1, wake-up, message}"),
    ],
)
PROPS["C09"] = dict(
    crate="des", mounts=NR_MOUNTS, prepend=DES_PREPEND,
    functions=["ModuleRef::{handle_message,async_wakeup,module_restart,at_sim_start,num_sim_start_stages}", "Processor::{incoming_upstream,incoming_downstream}"],
    level_text="Claimed for the synchronous kernels only (bounded model checking): with a symbolic active flag, handle_message and async_wakeup run the handler and processing elements iff the module is active and leave the flag unchanged; module_restart sets the module active before its start-up stages run (the module observes its own active flag inside at_sim_start) and runs each declared start-up stage (symbolic count <= 3) exactly once in ascending order, each bracketed by the processing stack. Cancellation of tokio tasks and their timers, dropping of in-transit messages at gates, the shutdown flag handling in buf_process and repeated cycles over a run are NOT decided here (tokio runtime / global context outside the encoding).",
    claim="Recorded call log compared with the specification.",
    assumptions=NR_STUBS, outside=["tokio task cancellation on shutdown", "buf_process shutdown branch (global buffers, Runtime<Sim<A>>)", "messages in transit across dispatches", "restart timing (ModuleRestartEvent scheduling)"],
    harnesses=[
        H(MNR, "c09_inactive_ignores_events_stack1", bounds="1 element; active flag symbolic; event kind symbolic {message, wake-up}"),
        H(MNR, "c09_inactive_ignores_events_stack2", bounds="2 elements; active flag symbolic; event kind symbolic"),
        H(MNR, "c09_restart_runs_stages_once", bounds="stage count symbolic 0..3; 1 element"),
    ],
)


# --------------------------------------------------------------------------- C08 gates (+ C09 transit)
G_MOUNTS = NR_MOUNTS + [dict(file="des/src/net/runtime/mod.rs", decl="mod verif_gates", harness="gates.rs")]
MG = "net::runtime::verif_gates"
PROPS["C08"] = dict(
    crate="des", mounts=G_MOUNTS, prepend=DES_PREPEND,
    functions=["des::net::gate::Gate::{new,connect,kind,path_iter,next_gate,path_end,owner}", "Connection::{new,new_unchecked,next_hop}", "Connections::{len,put}", "MessageExitingConnection::handle_with_sink (channel-free walk)"],
    level_text="Bounded model checking of the real gate code: 2-gate instance with symbolic orientation and a symbolic repeated/reversed duplicate connect (idempotent, symmetric, one peer each); 3- and 4-gate chains built by the connect calls in several fixed orders (one harness each, incl. two chains joined at their ends) with symbolic orientation of every call: ends are Endpoint, middle is Transit, the walk from either end enumerates every hop in order and is the exact mirror image of the other; a message walked through a channel-free chain across two modules is delivered exactly once, at the send time, to the module owning the far end, with the final gate recorded. Per-hop channel delays are C07; chains longer than 3 gates, clusters and the send API front end are outside.",
    claim="Oracles use only the public gate API (kind, next_gate, path_end, path_iter) and the event pushed into a Vec sink.",
    assumptions=NR_STUBS[1:] + ["field sensitivity 4096 (heap objects > 64 B are tracked field-wise)", "gates on standalone modules; no channels on the hops"],
    outside=["chains longer than 4 gates", "gate clusters", "channels on hops (C07 decides one hop)", "send/send_at API front end (global context)", "arrival-time sums over several dispatches"],
    harnesses=[
        H(MG, "c08_chain2_symmetric_idempotent", fs=4096, bounds="2 gates; orientation symbolic; duplicate call symbolic {none, same, reversed}"),
        H(MG, "c08_chain3_order_ab_bc", fs=4096, mem=16, bounds="3 gates; connect(a,b) then connect(b,c); orientation of each call symbolic"),
        H(MG, "c08_chain3_order_bc_ab", fs=4096, mem=16, bounds="3 gates; connect(b,c) then connect(a,b); orientation of each call symbolic"),
        H(MG, "c08_chain4_order_forward", fs=4096, mem=16, bounds="4 gates; connect ab, bc, cd; orientation of each call symbolic"),
        H(MG, "c08_chain4_order_backward", fs=4096, mem=16, bounds="4 gates; connect cd, bc, ab; orientations symbolic"),
        H(MG, "c08_chain4_join_two_chains", fs=4096, mem=16, bounds="4 gates; connect ab, cd, then bc (two chains joined at their ends); orientations symbolic"),
        H(MG, "c08_walk_and_c09_transit", fs=4096, mem=16, bounds="2 modules, 3 gates, orientations symbolic, active flags symbolic, now<=5ns; handle_with_sink"),
    ],
)
PROPS["C09"]["mounts"] = G_MOUNTS
PROPS["C09"]["harnesses"].append(H(MG, "c08_walk_and_c09_transit", fs=4096, mem=16, bounds="2 modules (transit T, receiver B), 3 gates; active flags symbolic; message at a gate of T is dropped iff T is shut down"))
PROPS["C09"]["functions"].append("MessageExitingConnection::handle_with_sink (inactive-owner drop)")


# --------------------------------------------------------------------------- C07 channels
M07 = "net::channel::verif_c07"
PROPS["C07"] = dict(
    crate="des",
    mounts=CQ_MOUNTS + [dict(file="des/src/net/channel.rs", decl="mod verif_c07", harness="c07.rs"),
                        dict(file="des/src/net/module/mod.rs", decl="pub(crate) mod verif_mod", harness="net_module_stub.rs")],
    prepend=DES_PREPEND,
    functions=["des::net::channel::Channel::{new,send_message,unbusy,set_busy_until,is_busy,calculate_busy}", "ChannelMetrics::{calculate_busy,calculate_duration}", "ChannelDropBehaviour::handle", "Buffer::{enqueue,dequeue}", "Message::length"],
    level_text="Kernel + step level (bounded model checking). Kernel: busy time = (64+len)*8/bitrate rounded to the nearest nanosecond, exact against integer arithmetic for the bitrates 8, 1e6, 1e9, 1e10 bit/s with symbolic length < 2^16 (f64 division bit-blasted); zero-jitter delay = busy + latency. Steps from a directly constructed channel state with symbolic metrics (bitrate, latency, Drop/Queue(None)/Queue(limit)), symbolic now and message lengths: one send_message (idle: exactly one delivery at now+busy+latency and one unbusy notification at now+busy, busy flag and finish time set; busy: queued iff the byte bound admits it, FIFO, acc_bytes exact, otherwise dropped, nothing transmitted, also when the offer arrives exactly at the end of the busy period) and one unbusy with 1-2 queued messages (head transmitted first; afterwards the queue is empty or the channel is busy - never idle with a backlog). Jitter (f64 Uniform sampling) and multi-step traffic patterns are outside.",
    claim="Channel state is built through set_busy_until and Buffer::enqueue (child module access); events are collected in a Vec sink.",
    assumptions=NR_STUBS[1:] + ["global RNG = harness RngCore returning 0 (jitter fixed to zero in step harnesses)", "field sensitivity 4096", "message bodies () with declared length"],
    outside=["jitter sampling (f64 Uniform)", "bitrates >= 2^40 in the arithmetic kernel / > 2^44 in the unbusy step", "sequences of more than one step (count conservation over whole traffic patterns is argued from the steps)", "delivery across several hops (C08)"],
    harnesses=[
        H(M07, "c07_busy_time_8bps", bounds="bitrate 8 bit/s, body len < 2^16 symbolic; exact ns"),
        H(M07, "c07_busy_time_1mbps", bounds="bitrate 1e6, len < 2^16"),
        H(M07, "c07_busy_time_1gbps", bounds="bitrate 1e9, len < 2^16"),
        H(M07, "c07_busy_time_10gbps", bounds="bitrate 1e10 (rounding to nearest ns), len < 2^16"),
        H(M07, "c07_busy_time_zero_threshold", tier="experimental", bounds="bitrate < 2^46 symbolic, len < 2^12 symbolic; zero / >=1ns thresholds"),
        H(M07, "c07_send_idle_transmits", fs=4096, mem=16, bounds="idle channel; bitrate 8e9 (1 byte/ns), latency<=1000ns, now<=1000, policy symbolic, offered len<=300"),
        H(M07, "c07_send_idle_unlimited_bitrate", fs=4096, mem=16, bounds="idle channel; bitrate 0 (unlimited), latency<=1000ns, now<=1000, offered len<=300"),
        H(M07, "c07_send_busy_drop", fs=4096, mem=16, bounds="busy until fin in [now,2000] (incl. fin==now), Drop policy, 0/1 queued msg, offered len<=300"),
        H(M07, "c07_send_busy_queue_unbounded", fs=4096, mem=16, bounds="busy, Queue(None), 0/1 queued msg (len<=100), offered len<=300"),
        H(M07, "c07_send_busy_queue_bounded", fs=4096, mem=16, bounds="busy, Queue(limit<=400 symbolic), 0/1 queued msg, offered len<=300"),
        H(M07, "c07_unbusy_step_one_queued", fs=4096, mem=16, unwindset=[(r"Channel::unbusy", None, 3)], bounds="bitrate in [1,2^44], one queued message len<=1000; unbusy at now=1000"),
        H(M07, "c07_unbusy_step_two_queued", fs=4096, mem=24, unwindset=[(r"Channel::unbusy", None, 3)], bounds="bitrate in [1,2^44], two queued messages len<=1000 each; unbusy"),
    ],
)


# --------------------------------------------------------------------------- C12
M12 = "net::runtime::verif_c12"
PROPS["C12"] = dict(
    crate="des", mounts=NR_MOUNTS + [dict(file="des/src/net/runtime/mod.rs", decl="mod verif_c12", harness="c12.rs")], prepend=DES_PREPEND,
    functions=["des::net::ObjectPath::{default,from,appended,parent,nonzero_parent,name,len,is_root,as_parent_str,eq}", "des::net::runtime::ModuleTree::{add,get}", "ModuleRef::{module_restart,at_sim_start,num_sim_start_stages}"],
    level_text="Claimed for the ordering kernels (bounded model checking): ObjectPath bookkeeping for paths of depth <= 3 over component names of 1 and 2 bytes with symbolic content over {a, b} (so whether one name textually extends the other is decided by the solver); ModuleTree::add yields the depth-first pre-order with siblings in creation order for 4-module trees with prefix-sharing sibling names (a/ab, ab/a) where the order of the add calls is a symbolic choice among three valid orders; in these harnesses ObjectPath::parent is replaced by an equivalent for the harness' path family (the real parent(): String::truncate + rfind + Arc<str> rebuild exhausts memory), ObjectPath eq/len/is_root and all of ModuleTree::add are real; each declared start-up stage of a module (symbolic count <= 3) runs exactly once, ascending, bracketed by the processing stack. NOT decided: the stage-major loop over all modules in SimLifecycle::at_sim_start / at_sim_end (needs Runtime<Sim<A>> and tokio), SimBuilder's duplicate / missing-parent rejection, parent()/child() lookups (FxHashMap children: hashbrown is outside the encoding).",
    claim="Name lengths are concrete, name contents symbolic; tree positions are compared by Arc identity.",
    assumptions=NR_STUBS + ["component names: fixed lengths 1 and 2, symbolic bytes over {a,b}", "trees of 4 modules, two fixed insertion orders"],
    outside=["SimLifecycle::at_sim_start/at_sim_end loops over the whole tree", "SimBuilder::node front end (duplicate / missing parent panics)", "ModuleContext::child_of and parent()/child() lookups (FxHashMap)", "trees with more than 4 modules, arbitrary insertion orders"],
    harnesses=[
        H(M12, "c12_path_parse3", bounds="ObjectPath::from on every 3-byte string over {a,b,.}"),
        H(M12, "c12_path_appended", bounds="root.appended(1-byte name).appended(2-byte name), bytes symbolic over {a,b}"),
        H(M12, "c12_tree_orders_prefix_names", fs=4096, mem=16, bounds="siblings a, ab + children; order of the 4 add calls symbolic among 3 valid orders; ObjectPath::parent replaced by a table lookup"),
        H(M12, "c12_tree_orders_prefix_names_rev", fs=4096, mem=16, bounds="siblings ab, a + children; same"),
        H(M12, "c12_path_parent", tier="experimental", mem=30, bounds="parse 'x.yz' (bytes symbolic over {a,b}), parent(), parent().parent()"),
        H(M12, "c12_tree_prefix_siblings_short_first", tier="experimental", fs=4096, mem=30, bounds="CONCRETE scenario: siblings a, ab with children; insertion order a, ab, ab.x, a.x"),
        H(M12, "c12_tree_prefix_siblings_long_first", tier="experimental", fs=4096, mem=30, bounds="CONCRETE scenario: insertion order ab, a, a.x, ab.x"),
        H(M12, "c12_tree_unrelated_siblings", tier="experimental", fs=4096, mem=30, bounds="CONCRETE scenario: siblings a, b; insertion order a, b, b.x, a.x"),
        H(MNR, "c09_restart_runs_stages_once", bounds="stage count symbolic 0..3; each stage once, ascending, bracketed"),
    ],
)


# --------------------------------------------------------------------------- C18 NDL grammar kernels
M18 = "ndl::def::verif_c18"
PROPS["C18"] = dict(
    crate="des-net-utils",
    mounts=[dict(file="des-net-utils/src/ndl/def.rs", decl="mod verif_c18", harness="c18.rs")],
    functions=["des_net_utils::ndl::def::{FieldDef,TypClause<String>,ModuleGenericsDef,ConnectionEndpointDef}::from_str"],
    level_text="Claimed for the string-grammar kernels only (bounded model checking): FromStr of FieldDef, TypClause<String>, ModuleGenericsDef and ConnectionEndpointDef never panics and yields the value the text denotes for EVERY byte string of the stated length over the stated alphabet (one solver query per length). Everything else in the statement - dependency ordering, generics substitution, inheritance, cardinality expansion, instantiation into a Sim - runs through FxHashMap/serde (hashbrown is outside the encoding) and is NOT decided.",
    claim="No stubs; any panic in the parser is a failing Kani check.",
    assumptions=["alphabets: fields {a,[,],1,0,/}, type clauses {a,(,),','}, generics {a,<,-,space}", "string lengths 2..4"],
    outside=["elaboration (transform_*), dependency ordering, generics, inheritance, instantiation (FxHashMap / serde_yml)", "strings longer than 4 bytes, non-ASCII input", "the second assert!(replacement_deps.is_empty()) in ndl/mod.rs (reached only through the FxHashMap-based elaboration)"],
    harnesses=[
        H(M18, "c18_field_def_len2", bounds="every 2-byte string over {a,[,],1,0,/}"),
        H(M18, "c18_field_def_len3", bounds="every 3-byte string over {a,[,],1,0,/}"),
        H(M18, "c18_field_def_len4", bounds="every 4-byte string over {a,[,],1,0,/}", tier="thorough"),
        H(M18, "c18_typ_clause_open_paren", timeout=600, bounds="strings x '(' y with x in {a,b}, y in {a,')','('}"),
        H(M18, "c18_typ_clause_unclosed2", timeout=600, bounds="strings x '(' with x in {a,b,'('}"),
        H(M18, "c18_typ_clause_len2", tier="experimental", bounds="every 2-byte string over {a,(,),','}"),
        H(M18, "c18_typ_clause_len3", tier="experimental", bounds="every 3-byte string over {a,(,),','}"),
        H(M18, "c18_generics_def_len3", tier="experimental", bounds="every 3-byte string over {a,<,-,space}"),
        H(M18, "c18_endpoint_def_len3", tier="experimental", bounds="every 3-byte string over {a,[,],1,0,/}"),
    ],
)


# --------------------------------------------------------------------------- C19 topology queries
M19 = "net::topology::verif_c19"
PROPS["C19"] = dict(
    crate="des",
    mounts=CQ_MOUNTS + [dict(file="des/src/net/topology.rs", decl="mod verif_c19", harness="c19.rs"),
                        dict(file="des/src/net/module/mod.rs", decl="pub(crate) mod verif_mod", harness="net_module_stub.rs")],
    prepend=DES_PREPEND,
    functions=["des::net::topology::Topology::{edges,edges_by_id,bidirectional,connected}", "EdgesIter::next"],
    level_text="Claimed for the derived graph queries only (bounded model checking on a directly built Topology with 3 nodes, <= 2 out-edges per node, symbolic edge presence and destinations - every such graph in one query): the global edge iterator yields every edge exactly once, in node order, attributed to the node that owns it (also behind edge-less nodes); the per-node iterator yields exactly that node's edges; bidirectional() equals its definition computed by a harness oracle (symmetric edge relation; out-degree <= 1 in the quick tier, <= 2 in the thorough tier). connected() (recursive visit with a growing Vec) did not finish in 900 s and is not decided. NOT decided: extraction from a simulation (from_modules / spanned need several ModuleContexts with wired gates - a 2-module instance did not leave symex in 300 s), dijkstra (returns an FxHashMap: hashbrown outside the encoding), filter_nodes (Vec::remove at a symbolic index).",
    claim="The Topology value is assembled field by field (child module); nodes share one standalone module and two gates since only indices matter for the queries.",
    assumptions=NR_STUBS[1:] + ["3 nodes, at most 2 out-edges each", "edge vectors pre-sized (no Vec growth under symbolic conditions)"],
    outside=["Topology::from_modules / spanned (extraction from gate wiring)", "dijkstra (FxHashMap result)", "filter_nodes / filter_edges", "graphs with more than 3 nodes", "as_dot"],
    harnesses=[
        H(M19, "c19_edges_iter_attributes_owner", fs=4096, mem=16, bounds="all graphs on 3 nodes with <=2 out-edges per node; Topology::edges()"),
        H(M19, "c19_edges_by_node", fs=4096, mem=16, bounds="same graphs; per-node iterator for a symbolic node"),
        H(M19, "c19_bidirectional_definition_deg1", fs=4096, mem=16, bounds="all graphs on 3 nodes with <=1 out-edge per node; bidirectional() vs symmetric-relation oracle"),
        H(M19, "c19_connected_definition_deg1", fs=4096, mem=30, tier="experimental", bounds="all graphs on 3 nodes with <=1 out-edge per node; connected() vs closure oracle"),
        H(M19, "c19_bidirectional_definition", fs=4096, mem=20, timeout=2400, tier="thorough", bounds="<=2 out-edges per node; bidirectional() vs oracle"),
        H(M19, "c19_connected_definition", fs=4096, mem=30, tier="experimental", bounds="<=2 out-edges per node; connected() vs closure oracle"),
    ],
)
