#!/usr/bin/env python3
"""Generate /verif/MANIFEST.json from lib/props.py (single source of truth)."""
import json
import os
import sys

VERIF = os.path.dirname(os.path.dirname(os.path.abspath(__file__)))
sys.path.insert(0, os.path.join(VERIF, "lib"))
import props as P  # noqa: E402

NA = P.NOT_APPLICABLE
checks = []
for pid in sorted(P.PROPS):
    if pid not in P.REGISTERED:
        continue
    p = P.PROPS[pid]
    nq = sum(1 for h in p["harnesses"] if h.get("tier", "quick") == "quick")
    checks.append(dict(
        property_id=pid,
        quick_cmd="./check %s --tier quick" % pid,
        thorough_cmd="./check %s --tier thorough" % pid,
        evidence_file="/verif/evidence/%s.json" % pid,
        replay_cmd_template="./check %s --replay {path}" % pid,
        engine="kani-cbmc",
        level_claimed=dict(
            category="model_checking",
            text=p["level_text"],
            design_ref=p.get("design_ref", "DESIGN.md §4 " + pid),
        ),
        level_note=("Bounded: holds for ALL values of the symbolic inputs inside the per-harness bounds listed in the evidence file "
                    "(%d quick / %d thorough harnesses); nothing is claimed outside them. Trusted base: rustc MIR -> Kani 0.68 codegen, CBMC 6.11, CaDiCaL; "
                    "stubs and cuts: %s" % (nq, len(p["harnesses"]), "; ".join(p.get("assumptions", [])))),
        technique="bounded symbolic model checking of the compiled Rust code (Kani -> CBMC -> SAT), harness oracles over kani::any() inputs, native concrete-playback replay of counterexamples",
    ))
KNOWN_IDS = {json.loads(l)["id"] for l in open(os.path.join(VERIF, "properties.jsonl")) if l.strip()}
for pid in sorted(P.PROPS):
    if pid not in KNOWN_IDS:
        continue
    if pid not in P.REGISTERED and pid not in {n["property_id"] for n in NA}:
        NA = NA + [dict(property_id=pid, reason="check under construction in this tree: harnesses exist but are not yet measured below the tier caps; not claimed until they are")]
m = dict(
    version=1,
    setup_cmd="./setup.sh",
    hooks=dict(
        guard="cfg(kani)",
        enable="no source hooks are committed in /repo: every check rsyncs /repo's working tree to a scratch directory and appends `#[cfg(kani)] #[path=\"/verif/harness/<file>.rs\"] mod verif_<x>;` lines (add-only) to the module files there; cfg(kani) is set only by cargo-kani",
        baseline_off_cmd="./run_baseline.sh",
        source_commits=[],
        add_only=True,
    ),
    engines=[dict(name="kani-cbmc", path="/verif/lib/driver.py", serves_properties=[c["property_id"] for c in checks],
                  kind_free_text="Kani 0.68 (rustc MIR -> goto-program) + CBMC 6.11 + CaDiCaL; one process per harness; counterexamples replayed natively with `cargo kani playback`")],
    checks=checks,
    notes="Exit codes: 0 held within bounds / only listed known findings; 1 replay-confirmed VIOLATION; 2 INCONCLUSIVE (cap hit, unwinding/bound assertion, harness no longer compiles, counterexample not reproducible natively). Genuine defects repaired in /repo by 'fix:' commits are listed in known_findings.json under 'fixed'.",
    not_applicable=sorted(NA, key=lambda n: n["property_id"]),
)
json.dump(m, open(os.path.join(VERIF, "MANIFEST.json"), "w"), indent=1)
print("MANIFEST.json: %d checks, %d not applicable" % (len(checks), len(m["not_applicable"])))
