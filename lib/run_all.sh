#!/bin/bash
# run every registered check (quick tier) once against /repo and rewrite all evidence files
cd /verif
ids=$(python3 -c "import sys; sys.path.insert(0,'lib'); import props; print(' '.join(props.REGISTERED))")
rc=0
for p in $ids; do
  ./check $p --tier ${1:-quick} > logs/all_$p.log 2>&1; r=$?
  echo "$p exit=$r $(tail -n 1 logs/all_$p.log)"
  [ $r -ne 0 ] && rc=1
done
exit $rc
