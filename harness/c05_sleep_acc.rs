//! accessor overlay (cfg(kani) only), child of `des::time::sleep`: read-only view of the timer id
use super::*;
impl Sleep {
    pub(crate) fn id_for_verif(&self) -> usize {
        self.id
    }
}
