//! scratch probes (not registered in MANIFEST)
#![allow(dead_code, unused_imports, clippy::all)]
extern crate alloc as alloc_crate;
use super::verif_pub as vp;
use super::*;

#[kani::proof]
#[kani::unwind(3)]
fn pr_vec_cond_push() {
    let c1: bool = kani::any();
    let c2: bool = kani::any();
    let a: [u64; 7] = kani::any();
    let b: [u64; 7] = kani::any();
    let mut v: Vec<[u64; 7]> = Vec::new();
    if c1 { v.push(a); }
    if c2 { v.push(b); }
    assert!(v.len() == c1 as usize + c2 as usize, "C00 len");
    if c1 { assert!(v[0][3] == a[3], "C00 val"); }
    kani::cover!(true, "REACH end of harness");
    std::mem::forget(v);
}

#[kani::proof]
#[kani::unwind(3)]
#[kani::stub(alloc_crate::alloc::realloc_nonnull, vp::realloc_nonnull_words)]
fn pr_vec_cond_push_stub() {
    let c1: bool = kani::any();
    let c2: bool = kani::any();
    let a: [u64; 7] = kani::any();
    let b: [u64; 7] = kani::any();
    let mut v: Vec<[u64; 7]> = Vec::new();
    if c1 { v.push(a); }
    if c2 { v.push(b); }
    assert!(v.len() == c1 as usize + c2 as usize, "C00 len");
    if c1 { assert!(v[0][3] == a[3], "C00 val"); }
    kani::cover!(true, "REACH end of harness");
    std::mem::forget(v);
}
