//! C01 / C03 harnesses: the real `CQueue` driven by symbolic scripts and compared
//! with a reference priority list kept in the harness.
//! Mounted as a child module of `des_cqueue::stable` (cfg(kani) only).
//!
//! Stubs (DESIGN.md §3): CQueue::new -> verif_pub::new_small4 (deque cap 4),
//! allocator -> std::alloc, page_size::get -> 64, VecDeque::grow -> bound assertion.
#![allow(dead_code, unused_imports, unused_macros, clippy::all)]
use super::verif_pub as vp;
use super::*;
use std::time::Duration;

const K: usize = 3;

// state: 0 unused, 1 pending, 2 fetched, 3 cancelled
#[derive(Clone, Copy)]
struct RefEv {
    time: u32,
    zero: bool,
    state: u8,
}

struct Model {
    ev: [RefEv; K],
    n: usize,
    cur: u32,
}

impl Model {
    fn new() -> Self {
        Model {
            ev: [RefEv {
                time: 0,
                zero: false,
                state: 0,
            }; K],
            n: 0,
            cur: 0,
        }
    }
    fn len(&self) -> usize {
        let mut c = 0;
        let mut i = 0;
        while i < K {
            if self.ev[i].state == 1 {
                c += 1;
            }
            i += 1;
        }
        c
    }
    fn min_time(&self) -> u32 {
        let mut m = u32::MAX;
        let mut i = 0;
        while i < K {
            if self.ev[i].state == 1 && self.ev[i].time < m {
                m = self.ev[i].time;
            }
            i += 1;
        }
        m
    }
    /// index the tie rule of C03 selects: min time; zero-class first; then insertion order
    fn next_strict(&self) -> usize {
        let m = self.min_time();
        let mut i = 0;
        while i < K {
            if self.ev[i].state == 1 && self.ev[i].time == m && self.ev[i].zero {
                return i;
            }
            i += 1;
        }
        i = 0;
        while i < K {
            if self.ev[i].state == 1 && self.ev[i].time == m {
                return i;
            }
            i += 1;
        }
        K
    }
}

fn d(ns: u32) -> Duration {
    Duration::new(0, ns)
}

struct Sys {
    q: CQueue<u8>,
    m: Model,
    h: [Option<EventHandle<u8>>; K],
    strict: bool,
}

impl Sys {
    fn new(n: usize, t: u32, strict: bool) -> Self {
        Sys {
            q: CQueue::new(n, d(t)),
            m: Model::new(),
            h: [None, None, None],
            strict,
        }
    }
    fn check_len(&self) {
        assert!(self.q.len() == self.m.len(), "C01 len == scheduled - cancelled - fetched");
        assert!(self.q.is_empty() == (self.m.len() == 0), "C01 is_empty consistent with len");
    }
    fn add(&mut self, t: u32) {
        let i = self.m.n;
        let zero = t == self.m.cur;
        let h = self.q.add(d(t), i as u8);
        self.h[i] = Some(h);
        self.m.ev[i] = RefEv {
            time: t,
            zero,
            state: 1,
        };
        self.m.n = i + 1;
        self.check_len();
    }
    fn fetch(&mut self) {
        let (p, t) = self.q.fetch_next();
        let p = p as usize;
        assert!(p < self.m.n, "C01 fetched payload was scheduled");
        assert!(self.m.ev[p].state != 2, "C01 event returned at most once");
        assert!(self.m.ev[p].state != 3, "C01 cancelled pending event never returned");
        assert!(self.m.ev[p].state == 1, "C01 fetched event was pending");
        assert!(d(self.m.ev[p].time) == t, "C01 returned with the timestamp it was scheduled with");
        assert!(self.m.ev[p].time == self.m.min_time(), "C01 fetch returns an event of minimal timestamp");
        assert!(self.m.ev[p].time >= self.m.cur, "C01 fetch order non-decreasing");
        if self.strict {
            assert!(p == self.m.next_strict(), "C03 tie order: current-instant events first, then scheduling order");
        }
        self.m.ev[p].state = 2;
        self.m.cur = self.m.ev[p].time;
        assert!(self.q.time() == d(self.m.cur), "C01 queue time == last fetched timestamp");
        self.check_len();
    }
    /// non-destructive look at the next timestamp (used by the runtime to check limits)
    fn peek(&mut self) {
        let t = self.q.next_time();
        if self.m.len() == 0 {
            assert!(t.is_none(), "C01 next_time of an empty queue is None");
        } else {
            assert!(t == Some(d(self.m.min_time())), "C01 next_time is the timestamp the next fetch will return");
        }
        self.check_len();
        assert!(self.q.time() == d(self.m.cur), "C01 looking at the next timestamp does not advance the queue's clock");
    }
    fn cancel(&mut self, i: usize) {
        if let Some(h) = self.h[i].take() {
            self.q.cancel(h);
            if self.m.ev[i].state == 1 {
                self.m.ev[i].state = 3;
            }
            self.check_len();
        }
    }
    fn drain(&mut self) {
        let mut k = 0;
        while k < K {
            if self.m.len() > 0 {
                self.fetch();
            }
            k += 1;
        }
        assert!(self.q.is_empty(), "C01 queue empty after draining every pending event");
        assert!(self.m.len() == 0, "C01 every non-cancelled event returned exactly once");
    }
    fn any_time(&self, tmax: u32) -> u32 {
        let t: u32 = kani::any();
        kani::assume(t >= self.m.cur && t <= tmax);
        t
    }
    fn step(&mut self, tmax: u32) {
        let op: u8 = kani::any();
        kani::assume(op < 3);
        if op == 0 {
            if self.m.n < K {
                let t = self.any_time(tmax);
                self.add(t);
            }
        } else if op == 1 {
            if self.m.len() > 0 {
                self.fetch();
            }
        } else {
            let i: usize = kani::any();
            kani::assume(i < K);
            if i < self.m.n {
                self.cancel(i);
            }
        }
    }
    fn finish(self) {
        kani::cover!(true, "REACH end of harness");
        std::mem::forget(self);
    }
}

macro_rules! cq_harness {
    ($name:ident, $unwind:expr, $body:expr) => {
        #[kani::proof]
        #[kani::unwind($unwind)]
        #[kani::stub(CQueue::new, vp::new_small4)]
        #[kani::stub(CQueueLLAllocator::allocate, vp::sys_allocate)]
        #[kani::stub(CQueueLLAllocator::deallocate, vp::sys_deallocate)]
        #[kani::stub(page_size::get, vp::page64)]
        #[kani::stub(std::collections::VecDeque::grow, vp::no_grow)]
        #[kani::stub(std::collections::VecDeque::remove, vp::remove_by_swaps)]
        fn $name() {
            $body
        }
    };
}

// ---------------------------------------------------------------------------
// fixed-shape scripts, symbolic timestamps
// ---------------------------------------------------------------------------

/// add, add, drain (ties and bucket boundaries inside [0,tmax])
fn order2(n: usize, t: u32, tmax: u32, strict: bool) {
    let mut s = Sys::new(n, t, strict);
    let a = s.any_time(tmax);
    s.add(a);
    let b = s.any_time(tmax);
    s.add(b);
    s.drain();
    s.finish();
}

/// add, add, fetch, add, drain
fn order3(n: usize, t: u32, tmax: u32, strict: bool) {
    let mut s = Sys::new(n, t, strict);
    let a = s.any_time(tmax);
    s.add(a);
    let b = s.any_time(tmax);
    s.add(b);
    s.fetch();
    let c = s.any_time(tmax);
    s.add(c);
    kani::cover!(c == s.m.cur && s.m.ev[1].state == 1 && s.m.ev[1].time == c, "REACH tie between zero-bucket event and earlier-scheduled bucket event");
    s.drain();
    s.finish();
}

/// add, add, [fetch], cancel(symbolic handle), drain
fn cancel2(n: usize, t: u32, tmax: u32) {
    let mut s = Sys::new(n, t, false);
    let a = s.any_time(tmax);
    s.add(a);
    let b = s.any_time(tmax);
    s.add(b);
    let f: bool = kani::any();
    if f {
        s.fetch();
    }
    let i: usize = kani::any();
    kani::assume(i < 2);
    kani::cover!(f && s.m.ev[i].state == 1 && s.m.ev[i].time == s.m.cur, "REACH cancel of a pending event whose time equals the current time");
    kani::cover!(f && s.m.ev[i].state == 2, "REACH cancel of an already fetched event");
    s.cancel(i);
    s.drain();
    s.finish();
}

/// add(a), cancel it, add(b), drain: cancel of a pending event in any bucket position
/// (bucket boundaries, year multiples, zero bucket) must remove it.
fn cancel1(n: usize, t: u32, tmax: u32) {
    let mut s = Sys::new(n, t, false);
    let a = s.any_time(tmax);
    s.add(a);
    kani::cover!(a == t, "REACH cancel of an event exactly on the first bucket boundary");
    kani::cover!(a == 0, "REACH cancel of a zero-bucket event");
    s.cancel(0);
    assert!(s.q.is_empty(), "C01 queue empty after cancelling its only event");
    let b = s.any_time(tmax);
    s.add(b);
    s.drain();
    s.finish();
}

/// add, add, fetch, cancel the event that is still pending: the clock now sits at an arbitrary
/// position inside a bucket window, the cancelled event in any (other) bucket
fn cancel_after_fetch(n: usize, t: u32, tmax: u32) {
    let mut s = Sys::new(n, t, false);
    let a = s.any_time(tmax);
    s.add(a);
    let b = s.any_time(tmax);
    s.add(b);
    s.fetch();
    let i = if s.m.ev[0].state == 1 { 0 } else { 1 };
    kani::cover!(s.m.ev[i].time > s.m.cur + t, "REACH cancel of an event more than one bucket ahead of an unaligned clock");
    s.cancel(i);
    assert!(s.q.is_empty(), "C01 queue empty after fetching one and cancelling the other event");
    s.finish();
}

/// add, add, fetch, PEEK, add(c >= current time, possibly earlier than the peeked event), drain:
/// peeking must not change what later operations do
fn peek_add(n: usize, t: u32, tmax: u32) {
    let mut s = Sys::new(n, t, false);
    let a = s.any_time(tmax);
    s.add(a);
    let b = s.any_time(tmax);
    s.add(b);
    s.fetch();
    s.peek();
    let c = s.any_time(tmax);
    s.add(c);
    kani::cover!(s.m.len() == 2 && c < s.m.ev[0].time.max(s.m.ev[1].time) && c > s.m.cur, "REACH event added between the current time and the peeked event");
    s.drain();
    s.finish();
}

/// symbolic script of `ops` operations
fn script(n: usize, t: u32, tmax: u32, ops: usize, strict: bool) {
    let mut s = Sys::new(n, t, strict);
    let mut k = 0;
    while k < ops {
        s.step(tmax);
        k += 1;
    }
    s.drain();
    s.finish();
}

// harness-wide unwind 5 = K+2 (model loops, list walk, deque iteration).  The two loops of
// `CQueue::fetch_next` get their own bound per configuration through the registry
// (`unwindset`, lib/props.py): windows visited + 1.  Unwinding assertions check every bound.
cq_harness!(c01_order2_n1t1, 5, order2(1, 1, 3, false));
cq_harness!(c01_order2_n2t2, 5, order2(2, 2, 5, false));
cq_harness!(c01_order2_n3t1, 5, order2(3, 1, 4, false));
cq_harness!(c01_order3_n1t2, 5, order3(1, 2, 5, false));
cq_harness!(c01_order3_n2t1, 5, order3(2, 1, 4, false));
cq_harness!(c01_order3_n2t2, 5, order3(2, 2, 5, false));
cq_harness!(c01_cancel2_n1t1, 5, cancel2(1, 1, 3));
cq_harness!(c01_cancel2_n2t2, 5, cancel2(2, 2, 5));
cq_harness!(c01_cancel2_n2t1, 5, cancel2(2, 1, 4));
cq_harness!(c01_cancel1_n2t2, 5, cancel1(2, 2, 5));
cq_harness!(c01_cancel1_n2t1, 5, cancel1(2, 1, 4));
cq_harness!(c01_cancel1_n3t1, 5, cancel1(3, 1, 4));
cq_harness!(c01_cancel_after_fetch_n2t2, 5, cancel_after_fetch(2, 2, 7));
cq_harness!(c01_cancel_after_fetch_n3t2, 5, cancel_after_fetch(3, 2, 7));
cq_harness!(c01_peek_add_n2t1, 5, peek_add(2, 1, 4));
cq_harness!(c01_peek_add_n1t2, 5, peek_add(1, 2, 5));
cq_harness!(c01_script4_n1t2, 5, script(1, 2, 5, 4, false));
cq_harness!(c01_script4_n2t1, 5, script(2, 1, 4, 4, false));
cq_harness!(c01_script5_n2t2, 5, script(2, 2, 5, 5, false));

cq_harness!(c03_ties2_n1t1, 5, order2(1, 1, 3, true));
cq_harness!(c03_ties2_n2t2, 5, order2(2, 2, 5, true));
cq_harness!(c03_ties3_n1t2, 5, order3(1, 2, 5, true));
cq_harness!(c03_ties3_n2t1, 5, order3(2, 1, 4, true));
cq_harness!(c03_ties3_n3t1, 5, order3(3, 1, 4, true));
cq_harness!(c03_script4_n2t1, 5, script(2, 1, 4, 4, true));

/// three adds, symbolic times, drain: any subset can tie
fn ties3(n: usize, t: u32, tmax: u32) {
    let mut s = Sys::new(n, t, true);
    let a = s.any_time(tmax);
    s.add(a);
    let b = s.any_time(tmax);
    s.add(b);
    let c = s.any_time(tmax);
    s.add(c);
    kani::cover!(a == b && b == c && a > 0, "REACH three-way future tie");
    s.drain();
    s.finish();
}
cq_harness!(c03_adds3_n1t1, 5, ties3(1, 1, 3));
cq_harness!(c03_adds3_n2t2, 5, ties3(2, 2, 5));

// ---------------------------------------------------------------------------
// CQueue::new vs. overlay constructor (justifies the `CQueue::new` stub)
// ---------------------------------------------------------------------------
#[kani::proof]
#[kani::unwind(5)]
#[kani::stub(CQueueLLAllocator::allocate, vp::sys_allocate)]
#[kani::stub(CQueueLLAllocator::deallocate, vp::sys_deallocate)]
#[kani::stub(page_size::get, vp::page64)]
fn c01_new_fields() {
    let n: usize = kani::any();
    let t: u32 = kani::any();
    kani::assume(n >= 1 && n <= 3 && t >= 1 && t <= 3);
    let a: CQueue<u8> = CQueue::new(n, d(t));
    let b: CQueue<u8> = vp::new_small(n, d(t));
    assert!(a.n == b.n && a.t == b.t && a.t_nanos == b.t_nanos && a.t_all == b.t_all, "C01 new: parameters equal overlay constructor");
    assert!(a.head == b.head && a.t_current == b.t_current && a.t0 == b.t0 && a.t1 == b.t1, "C01 new: window equal overlay constructor");
    assert!(a.event_id == b.event_id && a.len == b.len, "C01 new: counters equal overlay constructor");
    assert!(a.buckets.len() == b.buckets.len() && a.zero_event_bucket.len() == 0 && b.zero_event_bucket.len() == 0, "C01 new: containers equal overlay constructor");
    assert!(a.is_empty() && a.len() == 0 && a.time() == Duration::ZERO, "C01 new queue is empty at time zero");
    kani::cover!(true, "REACH end of harness");
    std::mem::forget(a);
    std::mem::forget(b);
}
