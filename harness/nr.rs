//! C14 / C09 / C12 harnesses on the synchronous kernels of the net layer.
//! Mounted as a child module of `des::net::runtime` (cfg(kani) only).
//!
//! Stubs (DESIGN.md §3): Harness::exec -> call the closure directly (real body = catch_unwind +
//! tokio LocalSet::block_on), AsyncCoreExt::new -> no tokio builder, tracing::new_scope ->
//! constant token (real body reaches mpsc::Sender::send: kani-compiler ICE), Arc::drop_slow ->
//! no-op (cyclic drop glue; destruction not claimed here).
#![allow(dead_code, unused_imports, static_mut_refs, clippy::all)]
use super::*;
use crate::net::message::Message;
use crate::net::module::{Module, ModuleContext};
use crate::net::processing::{ProcessingElement, ProcessingStack, Processor};
use crate::tracing::ScopeToken;
use std::sync::atomic::Ordering;
use std::sync::Arc;

unsafe fn arc_drop_slow_noop<T: ?Sized, A: std::alloc::Allocator>(_this: &mut Arc<T, A>) {}
fn scope_stub(_p: ObjectPath) -> ScopeToken {
    unsafe { std::mem::transmute::<u64, ScopeToken>(0u64) }
}
fn exec_stub<'a>(this: Harness<'a>, f: impl FnOnce()) -> Harness<'a>
where
    'a: 'a,
{
    f();
    this
}

/// Executed only by the native concrete-playback replay (stubs are not applied there, so the
/// real `Harness::exec` builds a tokio runtime and draws its seed from the global RNG);
/// under Kani it is stubbed to a no-op.
fn native_setup() {
    struct ZeroRng;
    impl rand::RngCore for ZeroRng {
        fn next_u32(&mut self) -> u32 {
            0
        }
        fn next_u64(&mut self) -> u64 {
            0
        }
        fn fill_bytes(&mut self, d: &mut [u8]) {
            for b in d {
                *b = 0;
            }
        }
    }
    unsafe {
        *crate::runtime::RNG.get() = Some(Box::new(ZeroRng));
    }
}
fn native_setup_noop() {}

// ------------------------------------------------------------------ recording
const LOGN: usize = 16;
static mut LOG: [u8; LOGN] = [0; LOGN];
static mut LOGI: usize = 0;
fn log(x: u8) {
    unsafe {
        if LOGI < LOGN {
            LOG[LOGI] = x;
        }
        LOGI += 1;
    }
}
fn logged(i: usize) -> u8 {
    unsafe { LOG[i] }
}
fn log_len() -> usize {
    unsafe { LOGI }
}

const START: u8 = 10; // + element id
const END: u8 = 20;
const INC: u8 = 30;
const HANDLER: u8 = 99;
const SIM_START: u8 = 40; // + stage
const SIM_END: u8 = 50;

struct Rec {
    id: u8,
    consume: bool,
}
impl ProcessingElement for Rec {
    fn event_start(&mut self) {
        log(START + self.id)
    }
    fn event_end(&mut self) {
        log(END + self.id)
    }
    fn incoming(&mut self, msg: Message) -> Option<Message> {
        log(INC + self.id);
        if self.consume {
            std::mem::forget(msg);
            None
        } else {
            Some(msg)
        }
    }
}

/// set by the harness: the context of the module under test, so that the recording module can
/// observe whether it is flagged active while its start-up stages run
static mut CTX_ACTIVE: Option<*const std::sync::atomic::AtomicBool> = None;
static mut INACTIVE_DURING_STAGE: bool = false;

struct M {
    stages: usize,
}
impl Module for M {
    fn handle_message(&mut self, m: Message) {
        log(HANDLER);
        std::mem::forget(m);
    }
    fn at_sim_start(&mut self, stage: usize) {
        log(SIM_START + stage as u8);
        unsafe {
            if let Some(p) = CTX_ACTIVE {
                if !(*p).load(Ordering::SeqCst) {
                    INACTIVE_DURING_STAGE = true;
                }
            }
        }
    }
    fn num_sim_start_stages(&self) -> usize {
        self.stages
    }
    fn at_sim_end(&mut self) -> Result<(), RuntimeError> {
        log(SIM_END);
        Ok(())
    }
}

fn msg() -> Message {
    Message::from_raw_parts(
        Box::new(crate::net::message::Header {
            id: 0,
            kind: 0,
            creation_time: crate::time::SimTime::MIN,
            send_time: crate::time::SimTime::MIN,
            sender_module_id: crate::net::module::ModuleId::NULL,
            receiver_module_id: crate::net::module::ModuleId::NULL,
            last_gate: None,
            src: [0; 6],
            dst: [0; 6],
        }),
        None,
    )
}

macro_rules! nr_harness {
    ($name:ident, $unwind:expr, $body:expr) => {
        #[kani::proof]
        #[kani::unwind($unwind)]
        #[kani::stub(crate::tracing::new_scope, scope_stub)]
        #[kani::stub(std::sync::Arc::drop_slow, arc_drop_slow_noop)]
        #[kani::stub(Harness::exec, exec_stub)]
        #[kani::stub(crate::net::module::ctx::rt::AsyncCoreExt::new, crate::net::module::verif_mod::async_ext_stub)]
        #[kani::stub(native_setup, native_setup_noop)]
        fn $name() {
            native_setup();
            $body
        }
    };
}

/// module with a stack of `n` recording elements (consume flags symbolic)
fn module_with_stack(n: usize, c: [bool; 3], stages: usize) -> ModuleRef {
    let m = ModuleContext::standalone("r".into());
    let stack = match n {
        0 => ProcessingStack::from(()),
        1 => ProcessingStack::from(Rec { id: 0, consume: c[0] }),
        2 => ProcessingStack::from((Rec { id: 0, consume: c[0] }, Rec { id: 1, consume: c[1] })),
        _ => ProcessingStack::from((Rec { id: 0, consume: c[0] }, Rec { id: 1, consume: c[1] }, Rec { id: 2, consume: c[2] })),
    };
    m.upgrade_dummy(Processor::new(stack, M { stages }));
    m
}

/// expected log of one message event for a stack of n elements with consume flags c,
/// written to `out`, returns its length
fn expect_msg_event(n: usize, c: [bool; 3], out: &mut [u8; LOGN], at: usize) -> usize {
    let mut k = at;
    let mut alive = true;
    let mut i = 0;
    while i < n {
        out[k] = START + i as u8;
        k += 1;
        if alive {
            out[k] = INC + i as u8;
            k += 1;
            if c[i] {
                alive = false;
            }
        }
        i += 1;
    }
    if alive {
        out[k] = HANDLER;
        k += 1;
    }
    let mut i = n;
    while i > 0 {
        i -= 1;
        out[k] = END + i as u8;
        k += 1;
    }
    k
}

fn check_log(exp: &[u8; LOGN], len: usize) {
    assert!(log_len() == len, "C14 every element sees event_start and event_end exactly once per event, incoming until the first consumer, handler iff not consumed (log length)");
    let mut i = 0;
    while i < LOGN {
        if i < len {
            assert!(logged(i) == exp[i], "C14 brackets in stack order, incoming in order until consumed, handler, event_end in reverse order (log content)");
        }
        i += 1;
    }
}

// ------------------------------------------------------------------ C14
/// one message event through a stack of n elements, consume flags symbolic
fn c14_message_event(n: usize) {
    let c: [bool; 3] = [kani::any(), kani::any(), kani::any()];
    let m = module_with_stack(n, c, 1);
    let r = m.handle_message(msg());
    assert!(r.is_ok(), "C14 handle_message succeeds");
    let mut exp = [0u8; LOGN];
    let len = expect_msg_event(n, c, &mut exp, 0);
    check_log(&exp, len);
    kani::cover!(n > 1 && c[0], "COVER first element consumes");
    kani::cover!(true, "REACH end of harness");
    std::mem::forget((m, r));
}
nr_harness!(c14_message_stack0, 17, c14_message_event(0));
nr_harness!(c14_message_stack1, 17, c14_message_event(1));
nr_harness!(c14_message_stack2, 17, c14_message_event(2));
nr_harness!(c14_message_stack3, 17, c14_message_event(3));

/// two consecutive message events never interleave their brackets
fn c14_two_events(n: usize) {
    let c: [bool; 3] = [kani::any(), kani::any(), kani::any()];
    let m = module_with_stack(n, c, 1);
    let r1 = m.handle_message(msg());
    let r2 = m.handle_message(msg());
    assert!(r1.is_ok() && r2.is_ok(), "C14 handle_message succeeds");
    let mut exp = [0u8; LOGN];
    let l1 = expect_msg_event(n, c, &mut exp, 0);
    let l2 = expect_msg_event(n, c, &mut exp, l1);
    check_log(&exp, l2);
    kani::cover!(true, "REACH end of harness");
    std::mem::forget((m, r1, r2));
}
nr_harness!(c14_two_events_stack2, 17, c14_two_events(2));

/// start-up stage, wake-up and tear-down events are bracketed too (no message)
fn c14_other_events(n: usize) {
    let m = module_with_stack(n, [false; 3], 2);
    let kind: u8 = kani::any();
    kani::assume(kind < 3);
    let mut exp = [0u8; LOGN];
    let mut k = 0;
    let mut i = 0;
    while i < n {
        exp[k] = START + i as u8;
        k += 1;
        i += 1;
    }
    if kind == 0 {
        let stage: usize = kani::any();
        kani::assume(stage < 2);
        let r = m.at_sim_start(stage);
        assert!(r.is_ok(), "C14 at_sim_start succeeds");
        exp[k] = SIM_START + stage as u8;
        k += 1;
        std::mem::forget(r);
    } else if kind == 1 {
        let r = m.async_wakeup();
        assert!(r.is_ok(), "C14 async_wakeup succeeds");
        std::mem::forget(r);
    } else {
        let r = m.handle_message(msg());
        assert!(r.is_ok(), "C14 handle_message succeeds");
        let mut j = 0;
        while j < n {
            // pass-through elements: START j, INC j interleaved
            j += 1;
        }
        // recompute for the message case
        k = expect_msg_event(n, [false; 3], &mut exp, 0);
        check_log(&exp, k);
        kani::cover!(true, "REACH end of harness");
        std::mem::forget(m);
        return;
    }
    let mut i = n;
    while i > 0 {
        i -= 1;
        exp[k] = END + i as u8;
        k += 1;
    }
    check_log(&exp, k);
    kani::cover!(kind == 0, "COVER start-up stage event");
    kani::cover!(kind == 1, "COVER wake-up event");
    kani::cover!(true, "REACH end of harness");
    std::mem::forget(m);
}
nr_harness!(c14_other_events_stack2, 17, c14_other_events(2));

// ------------------------------------------------------------------ C09
/// handler and processing elements run iff the module is active
fn c09_inactive(n: usize) {
    let c: [bool; 3] = [kani::any(), kani::any(), kani::any()];
    let m = module_with_stack(n, c, 1);
    let active: bool = kani::any();
    m.ctx.active.store(active, Ordering::SeqCst);
    let wake: bool = kani::any();
    if wake {
        let r = m.async_wakeup();
        assert!(r.is_ok(), "C09 async_wakeup succeeds");
        std::mem::forget(r);
    } else {
        let r = m.handle_message(msg());
        assert!(r.is_ok(), "C09 handle_message succeeds");
        std::mem::forget(r);
    }
    if !active {
        assert!(log_len() == 0, "C09 a shut-down module runs no handler, processing element or wake-up");
    } else {
        assert!(log_len() > 0 || n == 0 && wake, "C09 an active module processes the event");
        if !wake {
            let mut exp = [0u8; LOGN];
            let len = expect_msg_event(n, c, &mut exp, 0);
            check_log(&exp, len);
        }
    }
    assert!(m.ctx.active.load(Ordering::SeqCst) == active, "C09 handling an event does not change the active flag");
    kani::cover!(!active && wake, "COVER wake-up for an inactive module");
    kani::cover!(true, "REACH end of harness");
    std::mem::forget(m);
}
nr_harness!(c09_inactive_ignores_events_stack1, 17, c09_inactive(1));
nr_harness!(c09_inactive_ignores_events_stack2, 17, c09_inactive(2));

/// restart: sets active and runs each declared start-up stage exactly once, in order,
/// each bracketed by the processing stack
fn c09_restart() {
    let stages: usize = kani::any();
    kani::assume(stages <= 3);
    let m = module_with_stack(1, [false; 3], stages);
    m.ctx.active.store(false, Ordering::SeqCst);
    unsafe {
        CTX_ACTIVE = Some(&m.ctx.active as *const _);
    }
    let r = m.module_restart();
    assert!(r.is_ok(), "C09 module_restart succeeds");
    assert!(!unsafe { INACTIVE_DURING_STAGE }, "C09 a restarted module behaves like a freshly started one: it is active while its start-up stages run");
    assert!(m.ctx.active.load(Ordering::SeqCst), "C09 restart makes the module active again");
    assert!(log_len() == 3 * stages, "C09/C12 each declared stage runs exactly once");
    let mut s = 0;
    while s < 3 {
        if s < stages {
            assert!(logged(3 * s) == START && logged(3 * s + 1) == SIM_START + s as u8 && logged(3 * s + 2) == END, "C09/C12 stages run in ascending order, each bracketed by the processing stack");
        }
        s += 1;
    }
    kani::cover!(stages == 3, "COVER three stages");
    kani::cover!(stages == 0, "COVER no stage");
    kani::cover!(true, "REACH end of harness");
    std::mem::forget((m, r));
}
nr_harness!(c09_restart_runs_stages_once, 17, c09_restart());
