//! C08 (gate chains) and C09 (transit through a shut-down module) harnesses.
//! Mounted as a child module of `des::net::runtime` (cfg(kani) only); shares the stubs of nr.rs.
#![allow(dead_code, unused_imports, static_mut_refs, clippy::all)]
use super::*;
use crate::net::gate::{Connection, Gate, GateKind, GateRef};
use crate::net::message::Message;
use crate::net::module::ModuleContext;
use crate::time::SimTime;
use crate::tracing::ScopeToken;
use std::sync::atomic::Ordering;
use std::sync::Arc;

unsafe fn arc_drop_slow_noop<T: ?Sized, A: std::alloc::Allocator>(_this: &mut Arc<T, A>) {}
fn scope_stub(_p: ObjectPath) -> ScopeToken {
    unsafe { std::mem::transmute::<u64, ScopeToken>(0u64) }
}
fn native_setup() {
    struct ZeroRng;
    impl rand::RngCore for ZeroRng {
        fn next_u32(&mut self) -> u32 {
            0
        }
        fn next_u64(&mut self) -> u64 {
            0
        }
        fn fill_bytes(&mut self, d: &mut [u8]) {
            for b in d {
                *b = 0;
            }
        }
    }
    unsafe {
        *crate::runtime::RNG.get() = Some(Box::new(ZeroRng));
    }
}
fn native_setup_noop() {}

macro_rules! g_harness {
    ($name:ident, $unwind:expr, $body:expr) => {
        #[kani::proof]
        #[kani::unwind($unwind)]
        #[kani::stub(crate::tracing::new_scope, scope_stub)]
        #[kani::stub(std::sync::Arc::drop_slow, arc_drop_slow_noop)]
        #[kani::stub(crate::net::module::ctx::rt::AsyncCoreExt::new, crate::net::module::verif_mod::async_ext_stub)]
        #[kani::stub(native_setup, native_setup_noop)]
        fn $name() {
            native_setup();
            $body
        }
    };
}

fn connect_sym(a: &GateRef, b: &GateRef) {
    let flip: bool = kani::any();
    if flip {
        b.clone().connect(a.clone(), None);
    } else {
        a.clone().connect(b.clone(), None);
    }
}

fn same(a: &Option<GateRef>, b: &GateRef) -> bool {
    match a {
        Some(x) => Arc::ptr_eq(x, b),
        None => false,
    }
}

// ------------------------------------------------------------------ C08: two gates
fn chain2() {
    let m = ModuleContext::standalone("r".into());
    let g0 = Gate::new(&m, "a", 1, 0);
    let g1 = Gate::new(&m, "b", 1, 0);
    assert!(g0.kind() == GateKind::Standalone && g1.kind() == GateKind::Standalone, "C08 fresh gates are standalone");
    connect_sym(&g0, &g1);
    // repeated / reversed duplicate call: idempotent and symmetric
    let dup: u8 = kani::any();
    kani::assume(dup < 3);
    if dup == 1 {
        g0.clone().connect(g1.clone(), None);
    } else if dup == 2 {
        g1.clone().connect(g0.clone(), None);
    }
    assert!(g0.kind() == GateKind::Endpoint && g1.kind() == GateKind::Endpoint, "C08 connecting is idempotent and symmetric: both gates have exactly one peer");
    assert!(same(&g0.next_gate(), &g1) && same(&g1.next_gate(), &g0), "C08 each end sees the other as next gate");
    assert!(same(&g0.path_end(), &g1) && same(&g1.path_end(), &g0), "C08 chain enumerates as mirror image from either end");
    kani::cover!(dup == 2, "COVER reversed duplicate connect");
    kani::cover!(true, "REACH end of harness");
    std::mem::forget((m, g0, g1));
}
g_harness!(c08_chain2_symmetric_idempotent, 4, chain2());

// ------------------------------------------------------------------ C08: three gates, any order and orientation
fn chain3(first01: bool) {
    let m = ModuleContext::standalone("r".into());
    let g0 = Gate::new(&m, "a", 1, 0);
    let g1 = Gate::new(&m, "b", 1, 0);
    let g2 = Gate::new(&m, "c", 1, 0);
    if first01 {
        connect_sym(&g0, &g1);
        connect_sym(&g1, &g2);
    } else {
        connect_sym(&g1, &g2);
        connect_sym(&g0, &g1);
    }
    assert!(g0.kind() == GateKind::Endpoint && g2.kind() == GateKind::Endpoint && g1.kind() == GateKind::Transit, "C08 chain ends are endpoints, the middle gate is transit (never more than two peers)");
    // walk from g0
    let mut it = g0.path_iter().unwrap();
    let h1 = it.next();
    let h2 = it.next();
    let h3 = it.next();
    assert!(h1.is_some() && Arc::ptr_eq(&h1.as_ref().unwrap().endpoint, &g1), "C08 first hop from a is b");
    assert!(h2.is_some() && Arc::ptr_eq(&h2.as_ref().unwrap().endpoint, &g2), "C08 second hop from a is c (traverses every hop in order)");
    assert!(h3.is_none(), "C08 walk ends at the far end");
    // walk from g2: exact mirror image
    let mut it = g2.path_iter().unwrap();
    let k1 = it.next();
    let k2 = it.next();
    let k3 = it.next();
    assert!(k1.is_some() && Arc::ptr_eq(&k1.as_ref().unwrap().endpoint, &g1), "C08 first hop from c is b");
    assert!(k2.is_some() && Arc::ptr_eq(&k2.as_ref().unwrap().endpoint, &g0), "C08 second hop from c is a (mirror image)");
    assert!(k3.is_none(), "C08 mirrored walk ends at the far end");
    kani::cover!(true, "REACH end of harness");
    std::mem::forget((m, g0, g1, g2, h1, h2, k1, k2));
}
g_harness!(c08_chain3_order_ab_bc, 4, chain3(true));
g_harness!(c08_chain3_order_bc_ab, 4, chain3(false));

// ------------------------------------------------------------------ C08: four gates, three connect calls in a fixed order
fn chain4(order: u8) {
    let m = ModuleContext::standalone("r".into());
    let g0 = Gate::new(&m, "a", 1, 0);
    let g1 = Gate::new(&m, "b", 1, 0);
    let g2 = Gate::new(&m, "c", 1, 0);
    let g3 = Gate::new(&m, "d", 1, 0);
    match order {
        0 => {
            connect_sym(&g0, &g1);
            connect_sym(&g1, &g2);
            connect_sym(&g2, &g3);
        }
        1 => {
            connect_sym(&g2, &g3);
            connect_sym(&g1, &g2);
            connect_sym(&g0, &g1);
        }
        _ => {
            // two chains joined at their ends
            connect_sym(&g0, &g1);
            connect_sym(&g2, &g3);
            connect_sym(&g1, &g2);
        }
    }
    assert!(g0.kind() == GateKind::Endpoint && g3.kind() == GateKind::Endpoint && g1.kind() == GateKind::Transit && g2.kind() == GateKind::Transit, "C08 chain ends are endpoints, inner gates are transit");
    let mut it = g0.path_iter().unwrap();
    let (h1, h2, h3, h4) = (it.next(), it.next(), it.next(), it.next());
    assert!(h1.is_some() && Arc::ptr_eq(&h1.as_ref().unwrap().endpoint, &g1), "C08 hop 1 from a is b");
    assert!(h2.is_some() && Arc::ptr_eq(&h2.as_ref().unwrap().endpoint, &g2), "C08 hop 2 from a is c");
    assert!(h3.is_some() && Arc::ptr_eq(&h3.as_ref().unwrap().endpoint, &g3), "C08 hop 3 from a is d (every hop in order)");
    assert!(h4.is_none(), "C08 walk ends at the far end");
    let mut it = g3.path_iter().unwrap();
    let (k1, k2, k3, k4) = (it.next(), it.next(), it.next(), it.next());
    assert!(k1.is_some() && Arc::ptr_eq(&k1.as_ref().unwrap().endpoint, &g2), "C08 hop 1 from d is c");
    assert!(k2.is_some() && Arc::ptr_eq(&k2.as_ref().unwrap().endpoint, &g1), "C08 hop 2 from d is b");
    assert!(k3.is_some() && Arc::ptr_eq(&k3.as_ref().unwrap().endpoint, &g0), "C08 hop 3 from d is a (mirror image)");
    assert!(k4.is_none(), "C08 mirrored walk ends at the far end");
    kani::cover!(true, "REACH end of harness");
    std::mem::forget((m, g0, g1, g2, g3, h1, h2, h3, k1, k2, k3));
}
g_harness!(c08_chain4_order_forward, 5, chain4(0));
g_harness!(c08_chain4_order_backward, 5, chain4(1));
g_harness!(c08_chain4_join_two_chains, 5, chain4(2));

// ------------------------------------------------------------------ C08 walk + C09 transit: two modules
fn msg() -> Message {
    Message::from_raw_parts(
        Box::new(crate::net::message::Header {
            id: 7,
            kind: 0,
            creation_time: SimTime::MIN,
            send_time: SimTime::MIN,
            sender_module_id: crate::net::module::ModuleId::NULL,
            receiver_module_id: crate::net::module::ModuleId::NULL,
            last_gate: None,
            src: [0; 6],
            dst: [0; 6],
        }),
        None,
    )
}

/// chain  t.g0 -- t.g1 -- b.g2  (channel-free), message exits the connection at t.g0 (it is
/// sitting at a gate of module T) and is walked towards B; T and B active flags symbolic.
fn walk_transit() {
    let t = ModuleContext::standalone("t".into());
    let b = ModuleContext::standalone("b".into());
    let g0 = Gate::new(&t, "in", 1, 0);
    let g1 = Gate::new(&t, "out", 1, 0);
    let g2 = Gate::new(&b, "port", 1, 0);
    connect_sym(&g0, &g1);
    connect_sym(&g1, &g2);
    let t_active: bool = kani::any();
    let b_active: bool = kani::any();
    t.ctx.active.store(t_active, Ordering::SeqCst);
    b.ctx.active.store(b_active, Ordering::SeqCst);
    let now: u32 = kani::any();
    kani::assume(now <= 5);
    SimTime::set_now(SimTime::from_duration(crate::time::Duration::new(0, now)));
    let mut sink: Vec<(NetEvents, SimTime)> = Vec::new();
    let ev = MessageExitingConnection {
        con: Connection::new(g0.clone()),
        msg: msg(),
    };
    ev.handle_with_sink(&mut sink);
    if !t_active {
        assert!(sink.len() == 0, "C09 a message passing through a gate of a shut-down module is dropped");
    } else {
        assert!(sink.len() == 1, "C08 a message sent into a channel-free chain is delivered exactly once");
        let (e, at) = &sink[0];
        assert!(*at == SimTime::now(), "C08 channel-free chain: arrival time is the send time");
        match e {
            NetEvents::HandleMessageEvent(h) => {
                assert!(Arc::ptr_eq(&h.module.ctx, &b.ctx), "C08 message is delivered to the module owning the far end of the chain");
                assert!(h.message.header.id == 7, "C08 the delivered message is the one that was sent");
                let lg = &h.message.header.last_gate;
                assert!(lg.is_some() && Arc::ptr_eq(lg.as_ref().unwrap(), &g2), "C08 header records the final gate");
            }
            _ => assert!(false, "C08 end of chain schedules a HandleMessageEvent"),
        }
    }
    kani::cover!(!t_active && b_active, "COVER transit module down, receiver up");
    kani::cover!(true, "REACH end of harness");
    std::mem::forget((t, b, g0, g1, g2, sink));
}
g_harness!(c08_walk_and_c09_transit, 4, walk_transit());
