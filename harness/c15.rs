//! C15 harnesses: page allocator safety (REAL allocator, no allocator stub) and payload
//! drop-exactly-once through the queue (allocator stubbed to std::alloc, as in C01).
//! Mounted as a child module of `des_cqueue::stable::alloc` (cfg(kani) only) so that the
//! private kernels `size_align`, `alloc_from_region`, `align_up` are callable.
#![allow(dead_code, unused_imports, static_mut_refs, clippy::all)]
use super::*;
use std::alloc::Layout;
use std::ptr::NonNull;

fn page128() -> usize {
    128
}

// ---------------------------------------------------------------------------
// integer kernels, full width
// ---------------------------------------------------------------------------

#[kani::proof]
fn c15_align_up_contract() {
    let addr: usize = kani::any();
    let sh: u32 = kani::any();
    kani::assume(sh <= 12);
    let align = 1usize << sh;
    kani::assume(addr <= usize::MAX - align);
    let r = align_up(addr, align);
    assert!(r >= addr, "C15 align_up never moves down");
    assert!(r % align == 0, "C15 align_up result is aligned");
    assert!(r - addr < align, "C15 align_up moves by less than the alignment");
    kani::cover!(r != addr, "REACH padding needed");
    kani::cover!(true, "REACH end of harness");
}

#[kani::proof]
fn c15_size_align_contract() {
    let size: usize = kani::any();
    let sh: u32 = kani::any();
    kani::assume(sh <= 6 && size >= 1 && size <= 4096);
    let align = 1usize << sh;
    let layout = Layout::from_size_align(size, align).unwrap();
    let (s, a) = CQueueLLAllocatorInner::size_align(layout);
    assert!(a >= align && a >= std::mem::align_of::<ListNode>(), "C15 padded alignment covers the requested one and the free-list node");
    assert!(a.is_power_of_two(), "C15 padded alignment is a power of two");
    assert!(s >= size && s >= std::mem::size_of::<ListNode>(), "C15 padded size holds the value and a free-list node");
    assert!(s % a == 0, "C15 padded size is a multiple of the alignment");
    kani::cover!(size < 16, "REACH small allocation rounded up to node size");
    kani::cover!(true, "REACH end of harness");
}

/// `alloc_from_region` on an arbitrary region (address and size symbolic, constructed in a buffer)
#[kani::proof]
fn c15_alloc_from_region_contract() {
    #[repr(align(64))]
    struct Buf([u8; 256]);
    let mut buf = Buf([0; 256]);
    let off: usize = kani::any();
    let rsize: usize = kani::any();
    kani::assume(off % 8 == 0 && off <= 128 && rsize >= 16 && rsize <= 128);
    let base = buf.0.as_mut_ptr() as usize + off;
    let node = base as *mut ListNode;
    unsafe {
        node.write(ListNode::new(rsize));
    }
    let region: &ListNode = unsafe { &*node };
    let size: usize = kani::any();
    let sh: u32 = kani::any();
    kani::assume(sh >= 3 && sh <= 5 && size >= 16 && size <= 128 && size % (1usize << sh) == 0);
    let align = 1usize << sh;
    match CQueueLLAllocatorInner::alloc_from_region(region, size, align) {
        Ok(start) => {
            assert!(start >= region.start_addr(), "C15 block starts inside the region");
            assert!(start % align == 0, "C15 block is aligned");
            assert!(start + size <= region.end_addr(), "C15 block ends inside the region");
            let excess = region.end_addr() - (start + size);
            assert!(excess == 0 || excess >= std::mem::size_of::<ListNode>(), "C15 split keeps a tail only if it can hold a free-list node");
        }
        Err(()) => {
            let start = align_up(region.start_addr(), align);
            let fits = start + size <= region.end_addr();
            let excess_ok = fits && (region.end_addr() - (start + size) == 0 || region.end_addr() - (start + size) >= std::mem::size_of::<ListNode>());
            assert!(!excess_ok, "C15 a region is refused only if the block does not fit or would leave an unusable tail");
        }
    }
    kani::cover!(true, "REACH end of harness");
}

// ---------------------------------------------------------------------------
// real allocator: script of allocate/deallocate, page size 128
// ---------------------------------------------------------------------------

#[derive(Clone, Copy)]
struct Blk {
    p: usize,
    size: usize,   // requested
    padded: usize, // size the allocator accounts for
    align: usize,
    live: bool,
}

fn any_layout() -> Layout {
    let size: usize = kani::any();
    let sh: u32 = kani::any();
    kani::assume(size >= 1 && size <= 64 && sh <= 4);
    Layout::from_size_align(size, 1usize << sh).unwrap()
}

fn check_block(inner: &CQueueLLAllocatorInner, b: &Blk, others: &[Blk], me: usize) {
    assert!(b.p % b.align == 0, "C15 allocation is aligned for the requested layout");
    // inside an owned page
    let mut inside = false;
    let mut i = 0;
    while i < inner.pages.len() {
        let pg = inner.pages[i] as usize;
        if b.p >= pg && b.p + b.size <= pg + inner.page_size {
            inside = true;
        }
        i += 1;
    }
    assert!(inside, "C15 allocation lies inside a page the allocator owns");
    let mut j = 0;
    while j < others.len() {
        if j != me && others[j].live {
            let o = &others[j];
            assert!(b.p + b.padded <= o.p || o.p + o.padded <= b.p, "C15 allocation does not overlap a live allocation");
        }
        j += 1;
    }
}

fn new_blk(p: usize, l: Layout) -> Blk {
    let (padded, _) = CQueueLLAllocatorInner::size_align(l);
    Blk {
        p,
        size: l.size(),
        padded,
        align: l.align(),
        live: true,
    }
}

fn size_layout(align: usize) -> Layout {
    let size: usize = kani::any();
    kani::assume(size >= 1 && size <= 64);
    Layout::from_size_align(size, align).unwrap()
}

/// lean oracle: aligned; does not cross the end of its (page-aligned, 128-byte) page; first and
/// last byte are writable/readable memory of a live heap object (CBMC's pointer checks on the
/// accesses below fail otherwise).  Looking the page up in `inner.pages` (ptr->int casts of
/// pointers loaded from the Vec buffer) exhausted memory, so ownership is decided through the
/// validity of the accesses instead.
fn check_lean(_inner: &CQueueLLAllocatorInner, b: &Blk) {
    assert!(b.p % b.align == 0, "C15 allocation is aligned for the requested layout");
    assert!((b.p & 127) + b.size <= 128, "C15 allocation does not cross the end of its page");
    unsafe {
        let first = b.p as *mut u8;
        let last = (b.p + b.size - 1) as *mut u8;
        first.write(0xC3);
        last.write(0x3C);
        assert!(last.read() == 0x3C, "C15 allocation is usable memory (last byte)");
        if b.size > 1 {
            assert!(first.read() == 0xC3, "C15 allocation is usable memory (first byte)");
        }
    }
}

/// free-list invariant (<= 3 regions inspected): every free region lies inside one page and
/// does not overlap the given live blocks
fn free_list_ok(inner: &CQueueLLAllocatorInner, live: &[Blk]) {
    let mut cur = &inner.head;
    let mut k = 0;
    while k < 3 {
        match &cur.next {
            Some(r) => {
                let s = r.start_addr();
                assert!((s & 127) + r.size <= 128, "C15 a free region never extends past the end of its page");
                let mut j = 0;
                while j < live.len() {
                    if live[j].live {
                        assert!(s + r.size <= live[j].p || live[j].p + live[j].padded <= s, "C15 a free region never overlaps a live allocation");
                    }
                    j += 1;
                }
                cur = r;
            }
            None => return,
        }
        k += 1;
    }
}

fn disjoint(a: &Blk, b: &Blk) -> bool {
    a.p + a.padded <= b.p || b.p + b.padded <= a.p
}

/// alloc, alloc: aligned, inside an owned page, disjoint, accounting exact
fn alloc2(l0: Layout, l1: Layout) {
    let mut inner = Box::new(CQueueLLAllocatorInner::new());
    let mut h = inner.handle();
    let b0 = new_blk(h.allocate(l0).unwrap() as usize, l0);
    assert!(inner.allocated_mem == b0.padded, "C15 allocated_mem == sum of live padded sizes");
    let b1 = new_blk(h.allocate(l1).unwrap() as usize, l1);
    check_lean(&inner, &b0);
    check_lean(&inner, &b1);
    assert!(disjoint(&b0, &b1), "C15 allocation does not overlap a live allocation");
    assert!(inner.allocated_mem == b0.padded + b1.padded, "C15 allocated_mem == sum of live padded sizes");
    free_list_ok(&inner, &[b0, b1]);
    kani::cover!(true, "REACH end of harness");
    std::mem::forget(inner);
}

#[kani::proof]
#[kani::unwind(3)]
#[kani::stub(page_size::get, page128)]
fn c15_alloc2_align8() {
    alloc2(size_layout(8), size_layout(8));
}

#[kani::proof]
#[kani::unwind(3)]
#[kani::stub(page_size::get, page128)]
fn c15_alloc2_align1_16() {
    alloc2(size_layout(1), size_layout(16));
}

/// alloc, free, alloc: memory is reused only after it was released; accounting exact
fn alloc_free_alloc(l0: Layout, l1: Layout) {
    let mut inner = Box::new(CQueueLLAllocatorInner::new());
    let mut h = inner.handle();
    let b0 = new_blk(h.allocate(l0).unwrap() as usize, l0);
    check_lean(&inner, &b0);
    unsafe { h.deallocate(NonNull::new(b0.p as *mut u8).unwrap(), l0) };
    assert!(inner.allocated_mem == 0, "C15 allocated_mem returns to zero after the only block is freed");
    let b1 = new_blk(h.allocate(l1).unwrap() as usize, l1);
    check_lean(&inner, &b1);
    assert!(inner.allocated_mem == b1.padded, "C15 allocated_mem == sum of live padded sizes (after reuse)");
    kani::cover!(b1.p == b0.p, "REACH freed block handed out again");
    kani::cover!(true, "REACH end of harness");
    std::mem::forget(inner);
}

#[kani::proof]
#[kani::unwind(3)]
#[kani::stub(page_size::get, page128)]
fn c15_alloc_free_alloc_align8() {
    alloc_free_alloc(size_layout(8), size_layout(8));
}

/// alloc a (24 B), alloc b (32 B), free b, alloc c (symbolic size) with alignment 16: c may reuse b's memory (which
/// starts at an address that is only 8-aligned) but must be aligned for ITS layout, never
/// overlaps live a, and a's bytes survive
#[kani::proof]
#[kani::unwind(3)]
#[kani::stub(page_size::get, page128)]
fn c15_alloc_reuse_keeps_live_block() {
    let mut inner = Box::new(CQueueLLAllocatorInner::new());
    inner.pages.reserve(3);
    let mut h = inner.handle();
    let l0 = Layout::from_size_align(24, 8).unwrap();
    let l1 = Layout::from_size_align(32, 8).unwrap();
    let l2 = size_layout(16);
    let b0 = new_blk(h.allocate(l0).unwrap() as usize, l0);
    let b1 = new_blk(h.allocate(l1).unwrap() as usize, l1);
    unsafe {
        (b0.p as *mut u8).write(0x5A);
        h.deallocate(NonNull::new(b1.p as *mut u8).unwrap(), l1);
    }
    let b2 = new_blk(h.allocate(l2).unwrap() as usize, l2);
    check_lean(&inner, &b2);
    assert!(disjoint(&b0, &b2), "C15 reused memory never overlaps a live allocation");
    assert!(unsafe { (b0.p as *const u8).read() } == 0x5A, "C15 a live allocation is not disturbed by free/alloc of others");
    assert!(inner.allocated_mem == b0.padded + b2.padded, "C15 allocated_mem == sum of live padded sizes");
    kani::cover!(b2.p > b1.p && b2.p < b1.p + b1.padded, "COVER the new block starts inside the freed block");
    kani::cover!(b1.padded == b2.padded && b1.p % 16 == 8, "REACH same size class recycled from an 8-mod-16 address for a 16-aligned request");
    kani::cover!(true, "REACH end of harness");
    std::mem::forget(inner);
}

/// alloc, alloc, free(first or second, symbolic), alloc: blocks aligned, in pages, disjoint
/// while live; accounting exact; freed memory may be handed out again only after the free.
#[kani::proof]
#[kani::unwind(4)]
#[kani::stub(page_size::get, page128)]
fn c15_alloc_script3() {
    let mut inner = Box::new(CQueueLLAllocatorInner::new());
    // capacity only (semantically transparent): a later `pages.push` under a symbolic path
    // condition must not reach RawVec::grow (realloc + symbolic-length memcpy)
    inner.pages.reserve(3);
    let mut h = inner.handle();
    let mut blks = [Blk {
        p: 0,
        size: 0,
        padded: 0,
        align: 1,
        live: false,
    }; 3];
    let l0 = any_layout();
    let l1 = any_layout();
    let l2 = any_layout();
    let ls = [l0, l1, l2];
    let mut expect_mem = 0usize;
    let mut k = 0;
    while k < 2 {
        let p = h.allocate(ls[k]).unwrap() as usize;
        let (padded, _) = CQueueLLAllocatorInner::size_align(ls[k]);
        blks[k] = Blk {
            p,
            size: ls[k].size(),
            padded,
            align: ls[k].align(),
            live: true,
        };
        expect_mem += padded;
        check_block(&inner, &blks[k], &blks, k);
        assert!(inner.allocated_mem == expect_mem, "C15 allocated_mem == sum of live padded sizes");
        k += 1;
    }
    // write distinct patterns to both blocks, free one, the other must keep its bytes
    unsafe {
        (blks[0].p as *mut u8).write(0xA5);
        (blks[1].p as *mut u8).write(0x5A);
    }
    let f: usize = kani::any();
    kani::assume(f < 2);
    unsafe { h.deallocate(NonNull::new(blks[f].p as *mut u8).unwrap(), ls[f]) };
    blks[f].live = false;
    expect_mem -= blks[f].padded;
    assert!(inner.allocated_mem == expect_mem, "C15 allocated_mem decreases by the padded size on free");
    let p = h.allocate(ls[2]).unwrap() as usize;
    let (padded, _) = CQueueLLAllocatorInner::size_align(ls[2]);
    blks[2] = Blk {
        p,
        size: ls[2].size(),
        padded,
        align: ls[2].align(),
        live: true,
    };
    expect_mem += padded;
    check_block(&inner, &blks[2], &blks, 2);
    assert!(inner.allocated_mem == expect_mem, "C15 allocated_mem == sum of live padded sizes (after reuse)");
    let keep = 1 - f;
    let want = if keep == 0 { 0xA5u8 } else { 0x5A };
    assert!(unsafe { (blks[keep].p as *const u8).read() } == want, "C15 a live allocation is not disturbed by free/alloc of others");
    kani::cover!(p == blks[f].p, "REACH freed block handed out again");
    kani::cover!(inner.pages.len() == 2, "REACH second page");
    kani::cover!(true, "REACH end of harness");
    std::mem::forget(inner);
}

/// a request larger than the page is refused, one that exactly fits is served
#[kani::proof]
#[kani::unwind(4)]
#[kani::stub(page_size::get, page128)]
fn c15_alloc_page_limits() {
    let mut inner = Box::new(CQueueLLAllocatorInner::new());
    // capacity only (semantically transparent): a later `pages.push` under a symbolic path
    // condition must not reach RawVec::grow (realloc + symbolic-length memcpy)
    inner.pages.reserve(3);
    let mut h = inner.handle();
    let size: usize = kani::any();
    kani::assume(size >= 1 && size <= 200);
    let l = Layout::from_size_align(size, 8).unwrap();
    let (padded, _) = CQueueLLAllocatorInner::size_align(l);
    // A padded size in (page-16, page) can never be carved out of a fresh page (the tail would be
    // too small for a free-list node) and `find_region` keeps adding pages forever: a liveness
    // observation recorded in DESIGN.md, outside the safety statement of C15, excluded here.
    kani::assume(padded <= 128 - 16 || padded >= 128);
    let r = h.allocate(l);
    if padded > 128 {
        assert!(r.is_err(), "C15 a request that does not fit a page is refused");
    } else {
        let p = r.unwrap() as usize;
        let pg = inner.pages[0] as usize;
        let pg1 = if inner.pages.len() > 1 { inner.pages[1] as usize } else { pg };
        assert!((p >= pg && p + size <= pg + 128) || (p >= pg1 && p + size <= pg1 + 128), "C15 allocation lies inside a page the allocator owns");
        assert!(p % 8 == 0, "C15 allocation is aligned");
    }
    kani::cover!(padded == 128, "REACH request exactly one page");
    kani::cover!(true, "REACH end of harness");
    std::mem::forget(inner);
}
