//! accessor overlay (cfg(kani) only), child of `des::time::interval`: forwards to the private
//! `MissedTickBehavior::next_timeout`
use super::*;
impl MissedTickBehavior {
    pub(crate) fn next_timeout_for_verif(self, timeout: SimTime, now: SimTime, period: Duration) -> SimTime {
        self.next_timeout(timeout, now, period)
    }
}
