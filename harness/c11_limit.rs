//! C11 kernel: `RuntimeLimit::applies` / `RuntimeLimit::add` against the logical formula,
//! full-width symbolic values, symbolic tree shape up to depth 3.
//! Mounted as a child module of `des::runtime::limit` (cfg(kani) only).  No stubs.
#![allow(dead_code, unused_imports, clippy::all)]
use super::*;
use crate::time::{Duration, SimTime};

fn any_time() -> SimTime {
    let s: u64 = kani::any();
    let n: u32 = kani::any();
    kani::assume(n < 1_000_000_000);
    SimTime::from_duration(Duration::new(s, n))
}

/// (limit, reference closure data) for a symbolic leaf
#[derive(Clone, Copy)]
struct Leaf {
    is_count: bool,
    n: usize,
    t: SimTime,
}
impl Leaf {
    fn any() -> Self {
        Leaf {
            is_count: kani::any(),
            n: kani::any(),
            t: any_time(),
        }
    }
    fn limit(&self) -> RuntimeLimit {
        if self.is_count {
            RuntimeLimit::EventCount(self.n)
        } else {
            RuntimeLimit::SimTime(self.t)
        }
    }
    fn holds(&self, itr: usize, time: SimTime) -> bool {
        if self.is_count {
            itr > self.n
        } else {
            time > self.t
        }
    }
}

#[kani::proof]
#[kani::unwind(2)]
fn c11_applies_leaf_and_none() {
    let itr: usize = kani::any();
    let time = any_time();
    let l = Leaf::any();
    assert!(l.limit().applies(itr, time) == l.holds(itr, time), "C11 leaf limit: EventCount(n) <=> itr > n, SimTime(T) <=> time > T");
    assert!(!RuntimeLimit::None.applies(itr, time), "C11 None never applies");
    kani::cover!(l.is_count && itr == l.n, "REACH itr == n boundary");
    kani::cover!(!l.is_count && time == l.t, "REACH time == T boundary");
    kani::cover!(true, "REACH end of harness");
}

#[kani::proof]
#[kani::unwind(3)]
fn c11_applies_depth2() {
    let itr: usize = kani::any();
    let time = any_time();
    let a = Leaf::any();
    let b = Leaf::any();
    let and = RuntimeLimit::CombinedAnd(Box::new(a.limit()), Box::new(b.limit()));
    let or = RuntimeLimit::CombinedOr(Box::new(a.limit()), Box::new(b.limit()));
    assert!(and.applies(itr, time) == (a.holds(itr, time) && b.holds(itr, time)), "C11 And stops exactly when both conditions hold");
    assert!(or.applies(itr, time) == (a.holds(itr, time) || b.holds(itr, time)), "C11 Or stops exactly when one condition holds");
    kani::cover!(a.holds(itr, time) != b.holds(itr, time), "REACH leaves disagree");
    kani::cover!(true, "REACH end of harness");
    std::mem::forget((and, or));
}

#[kani::proof]
#[kani::unwind(4)]
fn c11_applies_depth3() {
    let itr: usize = kani::any();
    let time = any_time();
    let a = Leaf::any();
    let b = Leaf::any();
    let c = Leaf::any();
    let inner_and: bool = kani::any();
    let outer_and: bool = kani::any();
    let left: bool = kani::any();
    let inner = if inner_and {
        RuntimeLimit::CombinedAnd(Box::new(a.limit()), Box::new(b.limit()))
    } else {
        RuntimeLimit::CombinedOr(Box::new(a.limit()), Box::new(b.limit()))
    };
    let inner_v = if inner_and { a.holds(itr, time) && b.holds(itr, time) } else { a.holds(itr, time) || b.holds(itr, time) };
    let (l, r) = if left { (inner, c.limit()) } else { (c.limit(), inner) };
    let outer = if outer_and { RuntimeLimit::CombinedAnd(Box::new(l), Box::new(r)) } else { RuntimeLimit::CombinedOr(Box::new(l), Box::new(r)) };
    let want = if outer_and { inner_v && c.holds(itr, time) } else { inner_v || c.holds(itr, time) };
    assert!(outer.applies(itr, time) == want, "C11 nested And/Or trees follow the logical combination");
    kani::cover!(want, "REACH nested limit applies");
    kani::cover!(!want, "REACH nested limit does not apply");
    kani::cover!(true, "REACH end of harness");
    std::mem::forget(outer);
}

/// Builder composition: `add` replaces None, otherwise builds Or(old, new)
#[kani::proof]
#[kani::unwind(4)]
fn c11_add_composes_or() {
    let itr: usize = kani::any();
    let time = any_time();
    let a = Leaf::any();
    let b = Leaf::any();
    let c = Leaf::any();
    let mut l = RuntimeLimit::None;
    l.add(a.limit());
    assert!(l == a.limit(), "C11 add on None installs the limit itself");
    l.add(b.limit());
    assert!(l.applies(itr, time) == (a.holds(itr, time) || b.holds(itr, time)), "C11 two limits compose with Or");
    l.add(c.limit());
    assert!(l.applies(itr, time) == (a.holds(itr, time) || b.holds(itr, time) || c.holds(itr, time)), "C11 three limits compose with Or");
    kani::cover!(true, "REACH end of harness");
    std::mem::forget(l);
}
