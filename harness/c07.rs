//! C07 harnesses: channel delay arithmetic (kernel) and one send / one unbusy step from a
//! directly constructed channel state.  Child module of `des::net::channel` (cfg(kani) only).
//! Stubs: as nr.rs for the standalone module that owns the gate (new_scope, AsyncCoreExt::new,
//! Arc::drop_slow); the global RNG is a harness RngCore (jitter is zero in the step harnesses).
#![allow(dead_code, unused_imports, static_mut_refs, clippy::all)]
use super::*;
use crate::net::gate::{Connection, Gate, GateRef};
use crate::net::message::{Body, Message};
use crate::net::module::ModuleContext;
use crate::net::ObjectPath;
use crate::tracing::ScopeToken;
use std::sync::Arc;

unsafe fn arc_drop_slow_noop<T: ?Sized, A: std::alloc::Allocator>(_this: &mut Arc<T, A>) {}
fn scope_stub(_p: ObjectPath) -> ScopeToken {
    unsafe { std::mem::transmute::<u64, ScopeToken>(0u64) }
}

struct ZeroRng;
impl rand::RngCore for ZeroRng {
    fn next_u32(&mut self) -> u32 {
        0
    }
    fn next_u64(&mut self) -> u64 {
        0
    }
    fn fill_bytes(&mut self, d: &mut [u8]) {
        for b in d {
            *b = 0;
        }
    }
}
fn install_rng() {
    unsafe {
        *crate::runtime::RNG.get() = Some(Box::new(ZeroRng));
    }
}

fn msg(id: u16, len: usize) -> Message {
    Message::from_raw_parts(
        Box::new(crate::net::message::Header {
            id,
            kind: 0,
            creation_time: SimTime::MIN,
            send_time: SimTime::MIN,
            sender_module_id: crate::net::module::ModuleId::NULL,
            receiver_module_id: crate::net::module::ModuleId::NULL,
            last_gate: None,
            src: [0; 6],
            dst: [0; 6],
        }),
        Some(Body::new_with_len((), len)),
    )
}

fn st(ns: u64) -> SimTime {
    SimTime::from_duration(Duration::from_nanos(ns))
}

// ------------------------------------------------------------------ kernel: transmission time
/// busy time = size*8/bitrate for a fixed bitrate and symbolic message length, against exact
/// integer arithmetic (division by a constant); one harness per bitrate
fn busy_exact(bitrate: usize, num: u128, den: u128) {
    let len: usize = kani::any();
    kani::assume(len < (1usize << 16));
    let m = ChannelMetrics::new(bitrate, Duration::from_nanos(7), Duration::ZERO, ChannelDropBehaviour::Drop);
    let message = msg(0, len);
    assert!(message.length() == 64 + len, "C07 channels charge 64-byte header + body length");
    let busy = m.calculate_busy(&message);
    // expected ns = round((64+len) * num / den)
    let x = (64 + len) as u128 * num;
    let want = (2 * x + den) / (2 * den);
    assert!(busy.as_nanos() == want, "C07 busy time is size*8/bitrate (rounded to the nearest nanosecond)");
    let mut r = ZeroRng;
    assert!(m.calculate_duration(&message, &mut r) == Duration::from_nanos(7) + busy, "C07 zero jitter: delay = transmission time + latency");
    kani::cover!(true, "REACH end of harness");
    std::mem::forget(message);
}
#[kani::proof]
fn c07_busy_time_8bps() {
    busy_exact(8, 1_000_000_000, 1);
}
#[kani::proof]
fn c07_busy_time_1mbps() {
    busy_exact(1_000_000, 8_000, 1);
}
#[kani::proof]
fn c07_busy_time_1gbps() {
    busy_exact(1_000_000_000, 8, 1);
}
#[kani::proof]
fn c07_busy_time_10gbps() {
    busy_exact(10_000_000_000, 8, 10);
}

/// symbolic bitrate: zero iff unlimited or (clearly) below half a nanosecond; at least 1 ns when
/// the exact value is >= 1 ns
#[kani::proof]
fn c07_busy_time_zero_threshold() {
    let bitrate: usize = kani::any();
    let len: usize = kani::any();
    kani::assume(bitrate < (1usize << 46) && len < (1usize << 12));
    let m = ChannelMetrics::new(bitrate, Duration::ZERO, Duration::ZERO, ChannelDropBehaviour::Drop);
    let a = msg(0, len);
    let ba = m.calculate_busy(&a);
    let bits = ((64 + len) * 8) as u128;
    if bitrate == 0 {
        assert!(ba == Duration::ZERO, "C07 bitrate 0 = unlimited: no transmission time");
    } else {
        if bits * 1_000_000_000 >= bitrate as u128 {
            assert!(ba >= Duration::from_nanos(1), "C07 a transmission of at least one nanosecond is never rounded to zero");
        }
        if bits * 4_000_000_000 < bitrate as u128 {
            assert!(ba == Duration::ZERO, "C07 a transmission shorter than a quarter nanosecond rounds to zero");
        }
    }
    kani::cover!(bitrate > 0 && ba == Duration::ZERO, "REACH transmission time rounds to zero");
    kani::cover!(true, "REACH end of harness");
    std::mem::forget(a);
}

// ------------------------------------------------------------------ step harnesses
macro_rules! ch_harness {
    ($name:ident, $unwind:expr, $body:expr) => {
        #[kani::proof]
        #[kani::unwind($unwind)]
        #[kani::stub(crate::tracing::new_scope, scope_stub)]
        #[kani::stub(std::sync::Arc::drop_slow, arc_drop_slow_noop)]
        #[kani::stub(crate::net::module::ctx::rt::AsyncCoreExt::new, crate::net::module::verif_mod::async_ext_stub)]
        fn $name() {
            install_rng();
            $body
        }
    };
}

fn any_drop_behaviour() -> ChannelDropBehaviour {
    let k: u8 = kani::any();
    kani::assume(k < 3);
    match k {
        0 => ChannelDropBehaviour::Drop,
        1 => ChannelDropBehaviour::Queue(None),
        _ => {
            let l: usize = kani::any();
            kani::assume(l <= 400);
            ChannelDropBehaviour::Queue(Some(l))
        }
    }
}

/// fixed-size event sink (no heap growth under symbolic path conditions): records kind, time
/// and message id of every scheduled event.  kind 1 = MessageExitingConnection, 2 = ChannelUnbusyNotif
struct ArrSink {
    kind: [u8; 6],
    id: [u16; 6],
    at: [SimTime; 6],
    n: usize,
}
impl ArrSink {
    fn new() -> Self {
        ArrSink {
            kind: [0; 6],
            id: [0; 6],
            at: [SimTime::ZERO; 6],
            n: 0,
        }
    }
    fn len(&self) -> usize {
        self.n
    }
}
impl EventSink<NetEvents> for ArrSink {
    fn add(&mut self, event: NetEvents, time: SimTime) {
        let i = self.n;
        if i < 6 {
            match &event {
                NetEvents::MessageExitingConnection(x) => {
                    self.kind[i] = 1;
                    self.id[i] = x.msg.header.id;
                }
                NetEvents::ChannelUnbusyNotif(_) => self.kind[i] = 2,
                _ => self.kind[i] = 9,
            }
            self.at[i] = time;
        }
        self.n = i + 1;
        std::mem::forget(event);
    }
}

/// one offer to a channel in an arbitrary state (idle / busy with finish time; queue holding 0 or 1
/// message), symbolic metrics (bitrate, latency, Drop/Queue(None)/Queue(limit)), symbolic now
fn send_step(mode: u8) {
    let m = ModuleContext::standalone("r".into());
    let g = Gate::new(&m, "g", 1, 0);
    let via = Connection::new_unchecked(g.clone());
    // bitrate 8e9 bit/s: one byte per nanosecond, so the transmission time of a message is
    // exactly (64 + len) ns (the arithmetic itself is decided by the c07_busy_time_* harnesses);
    // mode 4: unlimited bitrate
    let bitrate: usize = if mode == 4 { 0 } else { 8_000_000_000 };
    let lat: u32 = kani::any();
    kani::assume(lat <= 1000);
    let db = match mode {
        0 => any_drop_behaviour(),
        1 => ChannelDropBehaviour::Drop,
        2 => ChannelDropBehaviour::Queue(None),
        _ => {
            let l: usize = kani::any();
            kani::assume(l <= 400);
            ChannelDropBehaviour::Queue(Some(l))
        }
    };
    let ch = Channel::new(ChannelMetrics::new(bitrate, Duration::from_nanos(lat as u64), Duration::ZERO, db));
    // capacity only: a conditional enqueue must not reach VecDeque::grow
    ch.inner.write().unwrap().buffer.packets.reserve(4);
    let now: u32 = kani::any();
    kani::assume(now <= 1000);
    SimTime::set_now(st(now as u64));
    // state
    let busy: bool = mode != 0 && mode != 4;
    let queued: bool = kani::any();
    let qlen: usize = kani::any();
    kani::assume(qlen <= 100);
    if busy {
        let fin: u32 = kani::any();
        kani::assume(fin >= now && fin <= 2000);
        ch.set_busy_until(st(fin as u64));
        if queued {
            let mut inner = ch.inner.write().unwrap();
            inner.buffer.enqueue(msg(1, qlen), via.clone());
        }
    }
    let acc0 = ch.inner.read().unwrap().buffer.acc_bytes;
    let n0 = ch.inner.read().unwrap().buffer.packets.len();
    let len: usize = kani::any();
    kani::assume(len <= 300);
    let mut sink = ArrSink::new();
    ch.clone().send_message(msg(2, len), via.clone(), &mut sink);
    let acc1 = ch.inner.read().unwrap().buffer.acc_bytes;
    let n1 = ch.inner.read().unwrap().buffer.packets.len();
    if busy {
        assert!(sink.len() == 0, "C07 a busy channel transmits nothing new (message is queued or dropped)");
        assert!(ch.is_busy(), "C07 an offer does not end the busy period");
        let total = 64 + len;
        let accept = match db {
            ChannelDropBehaviour::Drop => false,
            ChannelDropBehaviour::Queue(None) => true,
            ChannelDropBehaviour::Queue(Some(l)) => acc0 + total <= l,
        };
        if accept {
            assert!(n1 == n0 + 1 && acc1 == acc0 + total, "C07 Queue policy: accepted iff the byte bound holds; acc_bytes counts header + body");
            let inner = ch.inner.read().unwrap();
            assert!(inner.buffer.packets[n1 - 1].0.header.id == 2, "C07 queued messages keep FIFO order (new message at the tail)");
        } else {
            assert!(n1 == n0 && acc1 == acc0, "C07 a message that cannot be queued is dropped, the queue is unchanged");
        }
        kani::cover!(accept && n0 == 1, "COVER second message queued");
        kani::cover!(!accept && matches!(db, ChannelDropBehaviour::Queue(Some(_))), "COVER byte bound exceeded");
    } else {
        let bt = if bitrate == 0 { Duration::ZERO } else { Duration::from_nanos(64 + len as u64) };
        assert!(n1 == n0 && acc1 == acc0, "C07 an idle channel transmits immediately, nothing is queued");
        if bt != Duration::ZERO {
            assert!(sink.len() == 2, "C07 idle channel: exactly one unbusy notification and one delivery are scheduled");
            assert!(sink.kind[0] == 2 && sink.at[0] == SimTime::now() + bt, "C07 channel is busy exactly for the transmission time");
            assert!(sink.kind[1] == 1 && sink.id[1] == 2 && sink.at[1] == SimTime::now() + bt + Duration::from_nanos(lat as u64), "C07 delivery at start + size*8/bitrate + latency");
            assert!(ch.is_busy() && ch.transmission_finish_time() == SimTime::now() + bt, "C07 channel marked busy until the end of the transmission");
        } else {
            assert!(sink.len() == 1 && sink.kind[0] == 1 && sink.id[0] == 2, "C07 zero transmission time: delivery only");
            assert!(sink.at[0] == SimTime::now() + Duration::from_nanos(lat as u64), "C07 delivery at start + latency");
            assert!(!ch.is_busy(), "C07 zero transmission time does not make the channel busy");
        }
    }
    kani::cover!(busy && ch.transmission_finish_time() == SimTime::now(), "COVER offer exactly at the end of the busy period");
    kani::cover!(true, "REACH end of harness");
    std::mem::forget((m, g, via, ch, sink));
}
ch_harness!(c07_send_idle_transmits, 4, send_step(0));
ch_harness!(c07_send_idle_unlimited_bitrate, 4, send_step(4));
ch_harness!(c07_send_busy_drop, 4, send_step(1));
ch_harness!(c07_send_busy_queue_unbounded, 4, send_step(2));
ch_harness!(c07_send_busy_queue_bounded, 4, send_step(3));

/// the busy period ends with `qn` (1 or 2) queued messages: the head starts transmitting at once,
/// FIFO; afterwards the channel is busy or the queue is empty (never: idle with a backlog)
fn unbusy_step(two: bool) {
    let m = ModuleContext::standalone("r".into());
    let g = Gate::new(&m, "g", 1, 0);
    let via = Connection::new_unchecked(g.clone());
    let bitrate: usize = kani::any();
    kani::assume(bitrate >= 1 && bitrate <= (1usize << 44));
    let ch = Channel::new(ChannelMetrics::new(bitrate, Duration::from_nanos(5), Duration::ZERO, ChannelDropBehaviour::Queue(None)));
    SimTime::set_now(st(1000));
    ch.set_busy_until(st(1000));
    let l1: usize = kani::any();
    let l2: usize = kani::any();
    kani::assume(l1 <= 1000 && l2 <= 1000);
    {
        let mut inner = ch.inner.write().unwrap();
        inner.buffer.packets.reserve(4);
        inner.buffer.enqueue(msg(1, l1), via.clone());
        if two {
            inner.buffer.enqueue(msg(2, l2), via.clone());
        }
    }
    let mut sink = ArrSink::new();
    ch.clone().unbusy(&mut sink);
    let n1 = ch.inner.read().unwrap().buffer.packets.len();
    let acc1 = ch.inner.read().unwrap().buffer.acc_bytes;
    // the head of the queue was transmitted first
    let mut first_exit = 0u16;
    let mut exits = 0usize;
    let mut i = 0;
    while i < 6 {
        if i < sink.len() && sink.kind[i] == 1 {
            if first_exit == 0 {
                first_exit = sink.id[i];
            }
            exits += 1;
        }
        i += 1;
    }
    let queued0 = if two { 2 } else { 1 };
    assert!(exits + n1 == queued0, "C07 every queued message is either transmitted exactly once or still queued (none lost, none duplicated)");
    assert!(first_exit == 1, "C07 queued messages start transmission in FIFO order the instant the channel becomes idle");
    assert!(n1 == 0 || ch.is_busy(), "C07 a message is never left stuck in the queue once the channel is idle");
    if n1 == 1 {
        assert!(acc1 == 64 + l2, "C07 acc_bytes equals the bytes still queued");
    } else {
        assert!(acc1 == 0, "C07 acc_bytes is zero for an empty queue");
    }
    kani::cover!(two && !ch.is_busy(), "COVER head message with zero transmission time");
    kani::cover!(true, "REACH end of harness");
    std::mem::forget((m, g, via, ch, sink));
}
ch_harness!(c07_unbusy_step_one_queued, 8, unbusy_step(false));
ch_harness!(c07_unbusy_step_two_queued, 8, unbusy_step(true));
