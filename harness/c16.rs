//! C16 harnesses: `Body` / `Message` type safety, value preservation, drop-exactly-once, length.
//! Mounted as a child module of `des::net::message::body` (cfg(kani) only).  No stubs;
//! drop glue and deallocation are real (CBMC's malloc model detects double free / use after free).
#![allow(dead_code, unused_imports, static_mut_refs, clippy::all)]
use super::*;
use crate::net::message::Message;

static mut LIVE: i32 = 0; // values of type A/NC alive (created - dropped)
static mut DROPS: u32 = 0;
static mut MADE: u32 = 0;

#[derive(Debug, PartialEq)]
struct A(u32);
impl A {
    fn new(x: u32) -> A {
        unsafe {
            LIVE += 1;
            MADE += 1;
        }
        A(x)
    }
}
impl Clone for A {
    fn clone(&self) -> A {
        A::new(self.0)
    }
}
impl Drop for A {
    fn drop(&mut self) {
        unsafe {
            LIVE -= 1;
            DROPS += 1;
        }
    }
}
impl MessageBody for A {
    fn byte_len(&self) -> usize {
        4
    }
}

/// layout-compatible with A, distinct type
#[derive(Debug, Clone, PartialEq)]
struct B(u32);
impl MessageBody for B {
    fn byte_len(&self) -> usize {
        4
    }
}

#[derive(Debug, Clone, PartialEq)]
struct Zst;
impl MessageBody for Zst {
    fn byte_len(&self) -> usize {
        0
    }
}

/// not Clone
#[derive(Debug, PartialEq)]
struct NC(u32);
impl Drop for NC {
    fn drop(&mut self) {
        unsafe {
            LIVE -= 1;
            DROPS += 1;
        }
    }
}
impl MessageBody for NC {
    fn byte_len(&self) -> usize {
        4
    }
}

fn live() -> i32 {
    unsafe { LIVE }
}
fn drops() -> u32 {
    unsafe { DROPS }
}
fn made() -> u32 {
    unsafe { MADE }
}

#[kani::proof]
#[kani::unwind(3)]
fn c16_wrong_type_cast_is_refused() {
    let x: u32 = kani::any();
    let body = Body::new(A::new(x));
    assert!(body.is::<A>() && !body.is::<B>() && !body.is::<u32>() && !body.is::<Zst>(), "C16 body is exactly the type it was created with");
    assert!(body.try_content::<B>().is_none() && body.try_content::<u32>().is_none(), "C16 borrowing as another type yields None");
    assert!(body.length() == 4, "C16 body length is the declared byte length");
    let r = body.try_cast::<B>();
    match r {
        Ok(_) => assert!(false, "C16 cast to a layout-compatible but different type must fail"),
        Err(mut body) => {
            assert!(drops() == 0 && live() == 1, "C16 failed cast does not drop the value");
            assert!(body.is::<A>(), "C16 failed cast leaves the body intact (type)");
            assert!(body.try_content::<A>().map(|a| a.0) == Some(x), "C16 failed cast leaves the body intact (value)");
            assert!(body.try_content_mut::<B>().is_none(), "C16 mutable borrow as another type yields None");
            let r2 = body.try_cast::<u32>();
            match r2 {
                Ok(_) => assert!(false, "C16 cast to the field type must fail (no reinterpretation of the bytes)"),
                Err(body) => {
                    let v = body.try_cast::<A>();
                    match v {
                        Ok(a) => {
                            assert!(a.0 == x, "C16 value cast out equals the value put in");
                            assert!(drops() == 0, "C16 successful cast moves the value out without dropping it");
                            drop(a);
                            assert!(drops() == 1 && live() == 0, "C16 stored value dropped exactly once");
                        }
                        Err(_) => assert!(false, "C16 cast to the creation type succeeds"),
                    }
                }
            }
        }
    }
    kani::cover!(true, "REACH end of harness");
}

#[kani::proof]
#[kani::unwind(3)]
fn c16_zst_and_non_clonable() {
    let z = Body::new(Zst);
    assert!(z.is::<Zst>() && !z.is::<()>() && !z.is::<A>(), "C16 zero-sized body keeps its type identity");
    assert!(z.length() == 0, "C16 zero-sized body has declared length");
    let z2 = z.clone();
    assert!(z2.try_cast::<Zst>().is_ok(), "C16 cloned zero-sized body casts to its type");
    let r = z.try_cast::<()>();
    assert!(r.is_err(), "C16 ZST cast to another ZST is refused");
    drop(r);

    let x: u32 = kani::any();
    unsafe {
        LIVE += 1;
    }
    let nc = Body::new_non_clonable(NC(x));
    assert!(nc.try_clone().is_none(), "C16 try_clone of a non-clonable body is None");
    assert!(nc.try_content::<NC>().map(|v| v.0) == Some(x), "C16 non-clonable content readable as its own type");
    assert!(nc.try_content::<A>().is_none(), "C16 non-clonable content not readable as another type");
    let back = nc.try_cast::<A>();
    assert!(back.is_err() && drops() == 0, "C16 failed cast of non-clonable body keeps the value");
    drop(back);
    assert!(drops() == 1 && live() == 0, "C16 dropping the body drops the value exactly once");
    kani::cover!(true, "REACH end of harness");
}

/// symbolic script over {clone, try_clone, failed cast, successful cast, drop} on up to 3 bodies
#[kani::proof]
#[kani::unwind(5)]
fn c16_script_drop_once() {
    let x: u32 = kani::any();
    let mut slots: [Option<Body>; 3] = [Some(Body::new(A::new(x))), None, None];
    let mut k = 0;
    while k < 4 {
        let op: u8 = kani::any();
        kani::assume(op < 5);
        let i: usize = kani::any();
        kani::assume(i < 3);
        let j: usize = kani::any();
        kani::assume(j < 3 && j != i);
        if let Some(b) = slots[i].take() {
            match op {
                0 => {
                    if slots[j].is_none() {
                        let c = b.clone();
                        assert!(c.try_content::<A>().map(|a| a.0) == Some(x), "C16 clone holds an equal value");
                        slots[j] = Some(c);
                    }
                    slots[i] = Some(b);
                }
                1 => {
                    let c = b.try_clone();
                    assert!(c.is_some(), "C16 try_clone of a clonable body succeeds");
                    if slots[j].is_none() {
                        slots[j] = c;
                    }
                    slots[i] = Some(b);
                }
                2 => {
                    let before = drops();
                    match b.try_cast::<B>() {
                        Ok(_) => assert!(false, "C16 cast to another type must fail"),
                        Err(b) => {
                            assert!(drops() == before, "C16 failed cast drops nothing");
                            slots[i] = Some(b);
                        }
                    }
                }
                3 => match b.try_cast::<A>() {
                    Ok(a) => {
                        assert!(a.0 == x, "C16 value cast out equals the value put in");
                        let before = drops();
                        drop(a);
                        assert!(drops() == before + 1, "C16 cast-out value is dropped by its new owner, once");
                    }
                    Err(_) => assert!(false, "C16 cast to the creation type succeeds"),
                },
                _ => {
                    let before = drops();
                    drop(b);
                    assert!(drops() == before + 1, "C16 dropping a body drops its value exactly once");
                }
            }
        }
        assert!(live() >= 0, "C16 never more drops than values");
        k += 1;
    }
    let mut n = 0;
    let mut i = 0;
    while i < 3 {
        if slots[i].is_some() {
            n += 1;
        }
        i += 1;
    }
    assert!(live() == n, "C16 values alive == bodies alive (nothing leaked, nothing dropped twice)");
    kani::cover!(n == 3, "REACH three live bodies");
    kani::cover!(n == 0, "REACH all bodies consumed");
    drop(slots);
    assert!(live() == 0 && drops() == made(), "C16 every stored value dropped exactly once");
    kani::cover!(true, "REACH end of harness");
}

fn msg_with<T: MessageBody + std::any::Any + Clone + std::fmt::Debug>(v: T) -> Message {
    Message::from_raw_parts(
        Box::new(crate::net::message::Header {
            id: 0,
            kind: 0,
            creation_time: crate::time::SimTime::MIN,
            send_time: crate::time::SimTime::MIN,
            sender_module_id: crate::net::module::ModuleId::NULL,
            receiver_module_id: crate::net::module::ModuleId::NULL,
            last_gate: None,
            src: [0; 6],
            dst: [0; 6],
        }),
        Some(Body::new(v)),
    )
}

#[kani::proof]
#[kani::unwind(6)]
fn c16_message_length() {
    // primitives
    let a: u64 = kani::any();
    assert!(msg_with(a).length() == 64 + 8, "C16 message length = 64 + body length (u64)");
    let b: u8 = kani::any();
    assert!(msg_with(b).length() == 64 + 1, "C16 message length = 64 + body length (u8)");
    assert!(msg_with(()).length() == 64, "C16 message length = 64 + body length (unit)");
    // option / result
    let o: Option<u32> = if kani::any() { Some(kani::any()) } else { None };
    let want = if o.is_some() { 4 } else { 0 };
    assert!(msg_with(o).length() == 64 + want, "C16 message length = 64 + body length (Option)");
    let r: Result<u16, u64> = if kani::any() { Ok(kani::any()) } else { Err(kani::any()) };
    let want = if r.is_ok() { 2 } else { 8 };
    assert!(msg_with(r).length() == 64 + want, "C16 message length = 64 + body length (Result)");
    // array, tuple
    let arr: [u16; 3] = kani::any();
    assert!(msg_with(arr).length() == 64 + 6, "C16 message length = 64 + body length (array)");
    let tup: (u8, u32, u64) = kani::any();
    assert!(msg_with(tup).length() == 64 + 13, "C16 message length = 64 + body length (tuple)");
    // no body
    let m = Message::from_raw_parts(msg_with(0u8).header, None);
    assert!(m.length() == 64, "C16 message without body has header length");
    kani::cover!(true, "REACH end of harness");
}

#[kani::proof]
#[kani::unwind(6)]
fn c16_message_length_collections() {
    let n: usize = kani::any();
    kani::assume(n <= 3);
    let mut v: Vec<u32> = Vec::new();
    let mut i = 0;
    while i < n {
        v.push(kani::any());
        i += 1;
    }
    assert!(msg_with(v).length() == 64 + 4 * n, "C16 message length = 64 + body length (Vec)");
    let k: usize = kani::any();
    kani::assume(k <= 4);
    let s: String = "abcd"[..k].to_string();
    assert!(msg_with(s).length() == 64 + k, "C16 message length = 64 + body length (String)");
    let bx: Box<u16> = Box::new(kani::any());
    assert!(msg_with(bx).length() == 64 + 2, "C16 message length = 64 + body length (Box)");
    kani::cover!(n == 3 && k == 4, "REACH longest collections");
    kani::cover!(true, "REACH end of harness");
}

unsafe fn arc_drop_slow_noop<T: ?Sized, A: std::alloc::Allocator>(_this: &mut std::sync::Arc<T, A>) {}

/// Message-level API: try_cast / can_cast / try_content agree with the creation type
/// (Arc::drop_slow stubbed: the header's Option<GateRef> drop glue is cyclic; destruction of
/// gates is not the claim here)
#[kani::proof]
#[kani::unwind(3)]
#[kani::stub(std::sync::Arc::drop_slow, arc_drop_slow_noop)]
fn c16_message_cast() {
    let x: u32 = kani::any();
    let m = msg_with(B(x));
    assert!(m.can_cast::<B>() && !m.can_cast::<A>() && !m.can_cast::<u32>(), "C16 can_cast agrees with the creation type");
    assert!(m.try_content::<A>().is_none() && m.try_content::<B>() == Some(&B(x)), "C16 Message::try_content only as the creation type");
    let r = m.try_cast::<u32>();
    match r {
        Ok(_) => assert!(false, "C16 Message::try_cast to another type must fail"),
        Err(m) => {
            assert!(m.length() == 68 && m.try_content::<B>() == Some(&B(x)), "C16 failed Message::try_cast leaves the message intact");
            let c = m.clone();
            match m.try_cast::<B>() {
                Ok((v, _h)) => assert!(v == B(x), "C16 value cast out of the message equals the value put in"),
                Err(_) => assert!(false, "C16 Message::try_cast to the creation type succeeds"),
            }
            assert!(c.try_content::<B>() == Some(&B(x)) && c.length() == 68, "C16 cloned message holds an equal value and length");
        }
    }
    kani::cover!(true, "REACH end of harness");
}


/// cloning a message: the copy carries an equal value and the same length - or, if the body
/// cannot be cloned, there is no copy at all (never a copy that silently lost its body)
#[kani::proof]
#[kani::unwind(3)]
#[kani::stub(std::sync::Arc::drop_slow, arc_drop_slow_noop)]
fn c16_message_try_clone_keeps_body() {
    let x: u32 = kani::any();
    let clonable: bool = kani::any();
    let mut m = msg_with(0u8);
    if clonable {
        m.set_content(B(x));
    } else {
        unsafe {
            LIVE += 1;
        }
        m.set_content_non_clonable(NC(x));
    }
    assert!(m.length() == 68, "C16 message length = 64 + body length");
    let c = m.try_clone();
    match &c {
        Some(c) => {
            assert!(c.length() == m.length(), "C16 a cloned message has the same length as the original (the size channels charge for)");
            assert!(clonable, "C16 a message whose body cannot be cloned has no clone");
            assert!(c.try_content::<B>() == Some(&B(x)), "C16 what is cloned equals the value put in");
        }
        None => assert!(!clonable, "C16 a clonable message can be cloned"),
    }
    assert!(m.length() == 68 && (clonable || m.try_content::<NC>().map(|v| v.0) == Some(x)), "C16 cloning leaves the original intact");
    kani::cover!(!clonable, "REACH non-clonable body");
    kani::cover!(true, "REACH end of harness");
    std::mem::forget((m, c));
}


/// VecDeque body whose ring buffer has wrapped (elements in both slices): length = 4 per u32
#[kani::proof]
#[kani::unwind(8)]
fn c16_message_length_wrapped_deque() {
    use std::collections::VecDeque;
    let mut d: VecDeque<u32> = VecDeque::with_capacity(4);
    d.push_back(kani::any());
    d.push_back(kani::any());
    d.push_back(kani::any());
    d.push_back(kani::any());
    let _ = d.pop_front();
    let _ = d.pop_front();
    d.push_back(kani::any());
    let extra: bool = kani::any();
    if extra {
        d.push_back(kani::any());
    }
    let n = d.len();
    assert!(d.as_slices().1.len() > 0, "C16 harness state: the deque is physically wrapped");
    assert!(d.byte_len() == 4 * n, "C16 body length of a collection is the sum over all its elements (wrapped VecDeque)");
    assert!(msg_with(d).length() == 64 + 4 * n, "C16 message length = 64 + body length (wrapped VecDeque)");
    kani::cover!(extra, "REACH four elements, two in each slice");
    kani::cover!(true, "REACH end of harness");
}
