//! overlay (cfg(kani) only), child of `des::net::module`: stub for `AsyncCoreExt::new`
//! without a tokio `Builder` (tokio's builder seeds from `RandomState` -> FFI getrandom).
#![allow(dead_code, unused_imports)]
use super::ctx::rt::{AsyncCoreExt, Rt};
use crate::time::Driver;

pub(crate) fn async_ext_stub() -> AsyncCoreExt {
    AsyncCoreExt {
        rt: Rt::Shutdown,
        driver: Some(Driver::new()),
        must_join: Vec::new(),
        try_join: Vec::new(),
    }
}
