//! C12 harnesses: ObjectPath bookkeeping and ModuleTree insertion order (depth-first pre-order,
//! siblings in creation order, independent of the insertion order).  Child module of
//! `des::net::runtime` (cfg(kani) only); stubs as nr.rs.  Stage ordering of one module is decided
//! by `c09_restart_runs_stages_once` (nr.rs), listed under C12 as well.
#![allow(dead_code, unused_imports, static_mut_refs, clippy::all)]
use super::*;
use crate::net::module::ModuleContext;
use crate::tracing::ScopeToken;
use std::sync::Arc;

unsafe fn arc_drop_slow_noop<T: ?Sized, A: std::alloc::Allocator>(_this: &mut Arc<T, A>) {}
fn scope_stub(_p: ObjectPath) -> ScopeToken {
    unsafe { std::mem::transmute::<u64, ScopeToken>(0u64) }
}
fn native_setup() {
    struct ZeroRng;
    impl rand::RngCore for ZeroRng {
        fn next_u32(&mut self) -> u32 {
            0
        }
        fn next_u64(&mut self) -> u64 {
            0
        }
        fn fill_bytes(&mut self, d: &mut [u8]) {
            for b in d {
                *b = 0;
            }
        }
    }
    unsafe {
        *crate::runtime::RNG.get() = Some(Box::new(ZeroRng));
    }
}
fn native_setup_noop() {}

macro_rules! t_harness {
    ($name:ident, $unwind:expr, $body:expr) => {
        #[kani::proof]
        #[kani::unwind($unwind)]
        #[kani::stub(crate::tracing::new_scope, scope_stub)]
        #[kani::stub(std::sync::Arc::drop_slow, arc_drop_slow_noop)]
        #[kani::stub(crate::net::module::ctx::rt::AsyncCoreExt::new, crate::net::module::verif_mod::async_ext_stub)]
        #[kani::stub(native_setup, native_setup_noop)]
        fn $name() {
            native_setup();
            $body
        }
    };
}

// ------------------------------------------------------------------ symbolic names of fixed length
// Component names have CONCRETE lengths (1 and 2 bytes) and SYMBOLIC content over {a, b}: whether
// the longer name extends the shorter one textually ("a" / "ab") is decided by the solver, while
// every string length (memcpy / memcmp size) stays concrete.
fn sym_byte() -> u8 {
    let c: u8 = kani::any();
    kani::assume(c == b'a' || c == b'b');
    c
}
fn name1() -> String {
    let b = [sym_byte()];
    unsafe { std::str::from_utf8_unchecked(&b) }.to_string()
}
fn name2() -> String {
    let b = [sym_byte(), sym_byte()];
    unsafe { std::str::from_utf8_unchecked(&b) }.to_string()
}

// ------------------------------------------------------------------ ObjectPath (one operation per harness)
/// parsing a 3-byte string over {a, b, .}: len = number of components, name = last component
#[kani::proof]
#[kani::unwind(6)]
fn c12_path_parse3() {
    let c: [u8; 3] = [sym_abdot(), sym_abdot(), sym_abdot()];
    let s = unsafe { std::str::from_utf8_unchecked(&c) };
    let p = ObjectPath::from(s);
    let dots = (c[0] == b'.') as usize + (c[1] == b'.') as usize + (c[2] == b'.') as usize;
    // components are separated by dots; a trailing dot does not open a new component
    let want = dots + (c[2] != b'.') as usize;
    assert!(p.len() == want, "C12 parsed path depth equals the number of components");
    assert!(p.as_str().len() == 3 && !p.is_root(), "C12 parsed path keeps the text");
    if dots == 0 {
        assert!(p.name().len() == 3 && p.len() == 1, "C12 a dot-free string is one component");
    }
    if c[1] == b'.' && c[0] != b'.' && c[2] != b'.' {
        assert!(p.len() == 2 && p.name().len() == 1 && p.name().as_bytes()[0] == c[2], "C12 'x.y' has two components and is named after the last");
    }
    kani::cover!(dots == 1, "REACH one separator");
    kani::cover!(true, "REACH end of harness");
    std::mem::forget(p);
}
fn sym_abdot() -> u8 {
    let c: u8 = kani::any();
    kani::assume(c == b'a' || c == b'b' || c == b'.');
    c
}

/// appended() on a depth-1 path with symbolic content
#[kani::proof]
#[kani::unwind(6)]
fn c12_path_appended() {
    let n0 = name1();
    let n1 = name2();
    let p1 = ObjectPath::default().appended(&n0);
    assert!(p1.len() == 1 && p1.name().as_bytes()[0] == n0.as_bytes()[0], "C12 depth-1 path: one component, named after it");
    let p2 = p1.appended(&n1);
    assert!(p2.len() == 2 && p2.name().len() == 2 && p2.name().as_bytes()[1] == n1.as_bytes()[1], "C12 appending adds exactly one component");
    assert!(p2.as_str().len() == 4 && p2.as_str().as_bytes()[1] == b'.', "C12 components are joined by a dot");
    assert!(p2.as_parent_str().len() == 1, "C12 parent string of a depth-2 path is the first component");
    kani::cover!(true, "REACH end of harness");
    std::mem::forget((p1, p2, n0, n1));
}

/// std `memrchr` / `memchr` (word-at-a-time with alignment tricks) replaced by the obvious loops
fn naive_memrchr(x: u8, text: &[u8]) -> Option<usize> {
    let mut i = text.len();
    while i > 0 {
        i -= 1;
        if text[i] == x {
            return Some(i);
        }
    }
    None
}
fn naive_memchr(x: u8, text: &[u8]) -> Option<usize> {
    let mut i = 0;
    while i < text.len() {
        if text[i] == x {
            return Some(i);
        }
        i += 1;
    }
    None
}

/// parent() of a parsed depth-2 path 'x.yz' with symbolic content
#[kani::proof]
#[kani::unwind(6)]
#[kani::stub(core::slice::memchr::memrchr, naive_memrchr)]
#[kani::stub(core::slice::memchr::memchr, naive_memchr)]
fn c12_path_parent() {
    let c: [u8; 4] = [sym_byte(), b'.', sym_byte(), sym_byte()];
    let s = unsafe { std::str::from_utf8_unchecked(&c) };
    let p = ObjectPath::from(s);
    assert!(p.len() == 2, "C12 'x.yz' has two components");
    let par = p.parent();
    assert!(par.is_some(), "C12 a depth-2 path has a parent");
    let par = par.unwrap();
    assert!(par.len() == 1 && par.as_str().len() == 1 && par.as_str().as_bytes()[0] == c[0], "C12 parent() drops exactly the last component");
    let gp = par.parent();
    assert!(gp.is_some() && gp.as_ref().unwrap().is_root(), "C12 the parent of a depth-1 path is the root");
    assert!(par.nonzero_parent().is_none(), "C12 a depth-1 path has no non-root parent");
    kani::cover!(c[2] == c[0], "REACH child name starts with the parent's name");
    kani::cover!(true, "REACH end of harness");
    std::mem::forget((p, par, gp));
}

// ------------------------------------------------------------------ ModuleTree
fn module(path: ObjectPath) -> ModuleRef {
    ModuleContext::standalone(path)
}

fn is_at(tree: &ModuleTree, i: usize, m: &ModuleRef) -> bool {
    i < tree.len() && Arc::ptr_eq(&tree[i].ctx, &m.ctx)
}

/// CONCRETE scenario (no symbolic input; the compiled code is still executed by CBMC and all of
/// Kani's memory/overflow checks apply): two top-level siblings whose names share a textual
/// prefix, one child each, inserted in a valid order that is not the pre-order.
fn tree_interleaved(n1: &str, n2: &str, first_is_1: bool) {
    let p1 = ObjectPath::from(n1);
    let p2 = ObjectPath::from(n2);
    let s1 = module(p1.clone());
    let s2 = module(p2.clone());
    let c1 = module(p1.appended("x"));
    let c2 = module(p2.appended("x"));
    let mut tree = ModuleTree::default();
    if first_is_1 {
        tree.add(s1.clone());
        tree.add(s2.clone());
        tree.add(c2.clone());
        tree.add(c1.clone());
        assert!(is_at(&tree, 0, &s1) && is_at(&tree, 1, &c1) && is_at(&tree, 2, &s2) && is_at(&tree, 3, &c2), "C12 module order is the depth-first pre-order with siblings in creation order, independent of the insertion order");
    } else {
        tree.add(s2.clone());
        tree.add(s1.clone());
        tree.add(c1.clone());
        tree.add(c2.clone());
        assert!(is_at(&tree, 0, &s2) && is_at(&tree, 1, &c2) && is_at(&tree, 2, &s1) && is_at(&tree, 3, &c1), "C12 module order is the depth-first pre-order with siblings in creation order, independent of the insertion order");
    }
    assert!(tree.len() == 4, "C12 every added module is in the tree exactly once");
    let f = tree.get(&p2.appended("x"));
    assert!(f.is_some() && Arc::ptr_eq(&f.as_ref().unwrap().ctx, &c2.ctx), "C12 lookups by path agree with the declared tree");
    kani::cover!(true, "REACH end of harness");
    std::mem::forget((tree, s1, s2, c1, c2, p1, p2, f));
}
t_harness!(c12_tree_prefix_siblings_short_first, 8, tree_interleaved("a", "ab", true));
t_harness!(c12_tree_prefix_siblings_long_first, 8, tree_interleaved("a", "ab", false));
t_harness!(c12_tree_unrelated_siblings, 8, tree_interleaved("a", "b", true));


// ------------------------------------------------------------------ ModuleTree::add with ObjectPath::parent cut out
// `ObjectPath::parent` (String::truncate + rfind + Arc<str> rebuild) exhausts memory under CBMC.
// For the tree-insertion logic it is replaced by a lookup in the table of the harness' own
// paths (depth <= 2, one-byte child names: parent text = own text minus two bytes); `ObjectPath::{eq,len,is_root}` and all of
// `ModuleTree::add` stay real.  parent() itself is therefore NOT decided by these harnesses.
/// all child components in these harnesses are one byte long, so the parent of a depth-2 path
/// is its text without the last two bytes
fn parent_lookup(this: &ObjectPath) -> Option<ObjectPath> {
    if this.is_root() {
        None
    } else if this.len() == 1 {
        Some(ObjectPath::default())
    } else {
        let s = this.as_str();
        assert!(this.len() == 2 && s.len() >= 3, "VERIF-BOUND path outside the harness family");
        Some(ObjectPath::from(&s[..s.len() - 2]))
    }
}

macro_rules! tp_harness {
    ($name:ident, $unwind:expr, $body:expr) => {
        #[kani::proof]
        #[kani::unwind($unwind)]
        #[kani::stub(crate::tracing::new_scope, scope_stub)]
        #[kani::stub(std::sync::Arc::drop_slow, arc_drop_slow_noop)]
        #[kani::stub(crate::net::module::ctx::rt::AsyncCoreExt::new, crate::net::module::verif_mod::async_ext_stub)]
        #[kani::stub(ObjectPath::parent, parent_lookup)]
        #[kani::stub(native_setup, native_setup_noop)]
        fn $name() {
            native_setup();
            $body
        }
    };
}

/// siblings n1, n2 with one child each; the order of the four `add` calls is a symbolic choice
/// among the valid orders that start with n1 (each parent before its child)
fn tree_orders(n1: &'static str, n2: &'static str) {
    let root = ObjectPath::default();
    let p1 = root.appended(n1);
    let p2 = root.appended(n2);
    let q1 = p1.appended("x");
    let q2 = p2.appended("x");
    let s1 = module(p1);
    let s2 = module(p2);
    let c1 = module(q1);
    let c2 = module(q2);
    let mut tree = ModuleTree::default();
    let order: u8 = kani::any();
    kani::assume(order < 3);
    tree.add(s1.clone());
    match order {
        0 => {
            // s1, s2, c2, c1
            tree.add(s2.clone());
            tree.add(c2.clone());
            tree.add(c1.clone());
        }
        1 => {
            // s1, s2, c1, c2
            tree.add(s2.clone());
            tree.add(c1.clone());
            tree.add(c2.clone());
        }
        _ => {
            // s1, c1, s2, c2 (pre-order)
            tree.add(c1.clone());
            tree.add(s2.clone());
            tree.add(c2.clone());
        }
    }
    assert!(tree.len() == 4, "C12 every added module is in the tree exactly once");
    assert!(is_at(&tree, 0, &s1) && is_at(&tree, 1, &c1) && is_at(&tree, 2, &s2) && is_at(&tree, 3, &c2), "C12 module order is the depth-first pre-order with siblings in creation order, independent of the insertion order");
    kani::cover!(order == 0, "COVER interleaved insertion");
    kani::cover!(true, "REACH end of harness");
    std::mem::forget((tree, s1, s2, c1, c2));
}
tp_harness!(c12_tree_orders_prefix_names, 8, tree_orders("a", "ab"));
tp_harness!(c12_tree_orders_prefix_names_rev, 8, tree_orders("ab", "a"));
