//! C02 / C10 / C11 harnesses: the real `Runtime` (cqueue back end) driven with symbolic
//! event programs.  Mounted as a child module of `des::runtime` (cfg(kani) only).
//!
//! Stubs (DESIGN.md §3): CQueue::new -> overlay constructor (deque cap 4), cqueue allocator
//! -> std::alloc, page_size -> 64, VecDeque::grow -> bound assertion, VecDeque::remove -> swaps,
//! Instant::now / SystemTime::now / env::current_exe -> constants (FFI clocks, profiler only).
#![allow(dead_code, unused_imports, unused_macros, clippy::all)]
use super::*;
use crate::time::{Duration, SimTime};
use des_cqueue::verif_pub as vp;
use std::sync::Mutex;

pub(super) const LOGN: usize = 4;

pub(super) struct App {
    pub ids: [u8; LOGN],
    pub times: [u32; LOGN],
    pub n: usize,
}

impl App {
    pub fn new() -> Self {
        App {
            ids: [0; LOGN],
            times: [0; LOGN],
            n: 0,
        }
    }
}

#[derive(Debug, PartialEq, Eq, Clone, Copy)]
pub(super) enum Ev {
    /// leaf event with id
    Leaf(u8),
    /// event `id` that schedules `Leaf(child)` after `delay` ns
    Spawn(u8, u8, u8),
}

impl Application for App {
    type EventSet = Ev;
    type Lifecycle = ();
}

impl Event<App> for Ev {
    fn handle(self, rt: &mut Runtime<App>) {
        let now = SimTime::now();
        let id = match self {
            Ev::Leaf(i) => i,
            Ev::Spawn(i, _, _) => i,
        };
        let i = rt.app.n;
        if i < LOGN {
            rt.app.ids[i] = id;
            rt.app.times[i] = if now.as_secs() == 0 { now.subsec_nanos() } else { u32::MAX };
            rt.app.n = i + 1;
        }
        if let Ev::Spawn(_, d, c) = self {
            rt.add_event_in(Ev::Leaf(c), Duration::new(0, d as u32));
        }
    }
}

static PERMIT: Mutex<()> = Mutex::new(());

pub(super) struct NoRng;
impl rand::RngCore for NoRng {
    fn next_u32(&mut self) -> u32 {
        0
    }
    fn next_u64(&mut self) -> u64 {
        0
    }
    fn fill_bytes(&mut self, d: &mut [u8]) {
        for b in d {
            *b = 0;
        }
    }
}

pub(super) fn st(ns: u32) -> SimTime {
    SimTime::from_duration(Duration::new(0, ns))
}

pub(super) fn builder(n: usize, t: u32) -> Builder {
    Builder {
        quiet: true,
        rng: Box::new(NoRng),
        limit: RuntimeLimit::None,
        start_time: SimTime::MIN,
        cqueue_num_buckets: n,
        cqueue_bucket_timespan: Duration::new(0, t),
    }
}

/// Runtime in state Running at time zero, without going through the start banner.
pub(super) fn mk_rt(n: usize, t: u32, limit: RuntimeLimit) -> Runtime<App> {
    SimTime::set_now(SimTime::MIN);
    Runtime {
        app: App::new(),
        state: State::Running,
        limit,
        event_id: 0,
        itr: 0,
        quiet: true,
        profiler: Profiler {
            target: std::path::PathBuf::new(),
            exec: String::new(),
            target_is_release: false,
            simulation_start: std::time::SystemTime::UNIX_EPOCH,
            time_start: now0(),
            duration: Duration::ZERO,
            remaining: Vec::new(),
            event_count: 0,
            features: Vec::new(),
        },
        permit: PERMIT.lock().unwrap(),
        future_event_set: FutureEventSet::new_with(&builder(n, t)),
    }
}

pub(super) fn now0() -> std::time::Instant {
    unsafe { std::mem::zeroed() }
}
pub(super) fn sys0() -> std::time::SystemTime {
    std::time::SystemTime::UNIX_EPOCH
}
pub(super) fn exe0() -> std::io::Result<std::path::PathBuf> {
    Ok(std::path::PathBuf::from("x"))
}

pub(super) fn any_in(lo: u32, hi: u32) -> u32 {
    let t: u32 = kani::any();
    kani::assume(t >= lo && t <= hi);
    t
}

macro_rules! rt_harness {
    ($name:ident, $unwind:expr, $body:expr) => {
        #[kani::proof]
        #[kani::unwind($unwind)]
        #[kani::stub(des_cqueue::CQueue::new, vp::new_small4)]
        #[kani::stub(des_cqueue::CQueueLLAllocator::allocate, vp::sys_allocate)]
        #[kani::stub(des_cqueue::CQueueLLAllocator::deallocate, vp::sys_deallocate)]
        #[kani::stub(page_size::get, vp::page64)]
        #[kani::stub(std::collections::VecDeque::grow, vp::no_grow)]
        #[kani::stub(std::collections::VecDeque::remove, vp::remove_by_swaps)]
        #[kani::stub(std::time::Instant::now, now0)]
        #[kani::stub(std::time::SystemTime::now, sys0)]
        #[kani::stub(std::env::current_exe, exe0)]
        fn $name() {
            $body
        }
    };
}

// ---------------------------------------------------------------------------
// C02
// ---------------------------------------------------------------------------

/// one event at symbolic t1 that spawns a follow-up at symbolic delay d (0 allowed)
fn c02_clock(n: usize, t: u32, tmax: u32, dmax: u32) {
    let mut rt = mk_rt(n, t, RuntimeLimit::None);
    let t1 = any_in(0, tmax);
    let d = any_in(0, dmax);
    rt.add_event(Ev::Spawn(1, d as u8, 2), st(t1));
    let s1 = rt.dispatch_event();
    assert!(!s1, "C02 first dispatch handles the scheduled event");
    assert!(rt.app.n == 1 && rt.app.ids[0] == 1, "C02 each event handled exactly once (first)");
    assert!(rt.app.times[0] == t1, "C02 SimTime::now() inside handler == scheduled timestamp");
    assert!(SimTime::now() == st(t1), "C02 clock equals timestamp of last event");
    let s2 = rt.dispatch_event();
    assert!(!s2, "C02 second dispatch handles the follow-up");
    assert!(rt.app.n == 2 && rt.app.ids[1] == 2, "C02 each event handled exactly once (follow-up)");
    assert!(rt.app.times[1] == t1 + d, "C02 follow-up handled at now + delay");
    assert!(rt.app.times[1] >= rt.app.times[0], "C02 clock never decreases");
    assert!(SimTime::now() == st(t1 + d), "C02 clock equals timestamp of last event (2)");
    kani::cover!(d == 0, "REACH zero-delay follow-up");
    let s3 = rt.dispatch_event();
    assert!(s3 && rt.app.n == 2, "C02 no event handled twice / run ends when the set is empty");
    kani::cover!(true, "REACH end of harness");
    std::mem::forget(rt);
}
rt_harness!(c02_clock_n1t2, 5, c02_clock(1, 2, 3, 2));
rt_harness!(c02_clock_n2t1, 5, c02_clock(2, 1, 3, 2));

/// two pre-scheduled events at symbolic times + handler order
fn c02_two(n: usize, t: u32, tmax: u32) {
    let mut rt = mk_rt(n, t, RuntimeLimit::None);
    let a = any_in(0, tmax);
    let b = any_in(0, tmax);
    rt.add_event(Ev::Leaf(1), st(a));
    rt.add_event(Ev::Leaf(2), st(b));
    rt.dispatch_all();
    assert!(rt.app.n == 2, "C02 each event handled exactly once");
    assert!(rt.app.times[0] <= rt.app.times[1], "C02 events handled in non-decreasing timestamp order");
    let (first, second) = if b < a { (2, 1) } else { (1, 2) };
    assert!(rt.app.ids[0] == first && rt.app.ids[1] == second, "C02 handled order follows timestamps");
    let (ta, tb) = if b < a { (b, a) } else { (a, b) };
    assert!(rt.app.times[0] == ta && rt.app.times[1] == tb, "C02 SimTime::now() inside handler == scheduled timestamp");
    assert!(SimTime::now() == st(tb), "C02 clock equals timestamp of last event");
    kani::cover!(true, "REACH end of harness");
    std::mem::forget(rt);
}
rt_harness!(c02_two_n1t8, 5, c02_two(1, 8, 3));
rt_harness!(c02_two_n1t2, 5, c02_two(1, 2, 3));
rt_harness!(c02_two_n2t2, 5, c02_two(2, 2, 5));

/// past event must be rejected, for every start time (real Builder::start_time + Builder::build)
fn c02_past_start() {
    let s = any_in(0, 4);
    let t = any_in(0, 4);
    kani::assume(t < s);
    let b = builder(1, 2).start_time(st(s));
    let mut rt = b.build(App::new());
    assert!(SimTime::now() == st(s), "C02 clock initialised from Builder::start_time");
    kani::cover!(true, "REACH before past add");
    rt.add_event(Ev::Leaf(1), st(t));
    assert!(false, "C02 scheduling before the current simulated time must be rejected (non-zero start time)");
}
rt_harness!(c02_past_start_time, 5, c02_past_start());

/// at-or-after-now event must be accepted, for every start time
fn c02_future_start() {
    let s = any_in(0, 4);
    let t = any_in(0, 6);
    kani::assume(t >= s);
    let b = builder(1, 2).start_time(st(s));
    let mut rt = b.build(App::new());
    rt.add_event(Ev::Leaf(1), st(t));
    assert!(rt.num_events_remaining() == 1 && rt.num_events_scheduled() == 1, "C02 scheduling at or after now succeeds");
    rt.start();
    let s1 = rt.dispatch_event();
    assert!(!s1 && rt.app.n == 1 && rt.app.times[0] == t, "C02 event handled at its timestamp (non-zero start time)");
    assert!(SimTime::now() == st(t), "C02 clock equals timestamp of last event");
    kani::cover!(s > 0 && t == s, "REACH event exactly at non-zero start time");
    kani::cover!(true, "REACH end of harness");
    std::mem::forget(rt);
}
rt_harness!(c02_future_start_time, 5, c02_future_start());

/// non-zero (possibly bucket-unaligned) start time with several buckets: two events at/after the
/// start time are handled in timestamp order at their timestamps
fn c02_start_two(n: usize, t: u32) {
    let s = any_in(0, 3);
    let a = any_in(s, 5);
    let b = any_in(s, 5);
    let mut bld = builder(n, t).start_time(st(s));
    bld.limit = RuntimeLimit::None;
    let mut rt = bld.build(App::new());
    rt.add_event(Ev::Leaf(1), st(a));
    rt.add_event(Ev::Leaf(2), st(b));
    rt.start();
    let s1 = rt.dispatch_event();
    let s2 = rt.dispatch_event();
    assert!(!s1 && !s2 && rt.app.n == 2, "C02 each event handled exactly once (non-zero start time)");
    let (ta, tb) = if b < a { (b, a) } else { (a, b) };
    assert!(rt.app.times[0] == ta && rt.app.times[1] == tb, "C02 events handled in non-decreasing timestamp order at their timestamps (non-zero start time)");
    assert!(SimTime::now() == st(tb), "C02 clock equals timestamp of last event");
    kani::cover!(s % t != 0 && ta > s && ta / t == s / t && tb / t > s / t, "REACH unaligned start time, one event later in the start bucket, one in a later bucket");
    kani::cover!(true, "REACH end of harness");
    std::mem::forget(rt);
}
rt_harness!(c02_start_time_two_events_n2t3, 5, c02_start_two(2, 3));

/// past event after one dispatch (now = last event time) must be rejected
fn c02_past_after() {
    let mut rt = mk_rt(1, 2, RuntimeLimit::None);
    let a = any_in(1, 4);
    rt.add_event(Ev::Leaf(1), st(a));
    let s1 = rt.dispatch_event();
    assert!(!s1 && SimTime::now() == st(a), "C02 clock equals timestamp of last event");
    let t = any_in(0, 4);
    kani::assume(t < a);
    kani::cover!(true, "REACH before past add");
    rt.add_event(Ev::Leaf(2), st(t));
    assert!(false, "C02 scheduling before the current simulated time must be rejected (after a dispatch)");
}
rt_harness!(c02_past_after_dispatch, 5, c02_past_after());

/// clock kernel, full width: what the dispatcher stores is what handlers read
#[kani::proof]
#[kani::unwind(2)]
fn c02_clock_roundtrip_fullwidth() {
    let s: u64 = kani::any();
    let n: u32 = kani::any();
    kani::assume(n < 1_000_000_000);
    let t = SimTime::from_duration(Duration::new(s, n));
    SimTime::set_now(t);
    let r = SimTime::now();
    assert!(r == t, "C02 SimTime::now() returns exactly the time the dispatcher set (full-width seconds and nanoseconds)");
    assert!(r.as_secs() == s && r.subsec_nanos() == n, "C02 clock keeps seconds and sub-second nanoseconds separately exact");
    kani::cover!(s > u32::MAX as u64, "REACH seconds beyond 32 bits");
    kani::cover!(true, "REACH end of harness");
}

/// one event at a full-width symbolic timestamp (single bucket spanning the whole range)
fn c02_dispatch_wide() {
    SimTime::set_now(SimTime::MIN);
    let mut rt = mk_rt(1, 1, RuntimeLimit::None);
    // replace the event set by one whose single bucket spans [0, 2^63 s]
    let mut b = builder(1, 1);
    b.cqueue_bucket_timespan = Duration::new(1u64 << 63, 0);
    rt.future_event_set = FutureEventSet::new_with(&b);
    let s: u64 = kani::any();
    let n: u32 = kani::any();
    kani::assume(n < 1_000_000_000 && s < (1u64 << 63));
    let t = SimTime::from_duration(Duration::new(s, n));
    rt.add_event(Ev::Leaf(1), t);
    let s1 = rt.dispatch_event();
    assert!(!s1 && rt.app.n == 1, "C02 event at a far-future timestamp is handled");
    assert!(SimTime::now() == t, "C02 clock equals the full-width timestamp of the running event");
    assert!(rt.app.times[0] == if s == 0 { n } else { u32::MAX }, "C02 handler observes the full-width timestamp");
    kani::cover!(s > u32::MAX as u64, "REACH event beyond 2^32 seconds");
    kani::cover!(true, "REACH end of harness");
    std::mem::forget(rt);
}
rt_harness!(c02_dispatch_fullwidth, 5, c02_dispatch_wide());

// ---------------------------------------------------------------------------
// C10
// ---------------------------------------------------------------------------

/// cut a 3-event run after K events (dispatch_n_events), then resume: same order, same times.
/// Events are scheduled in timestamp order a <= b <= c (ties allowed), so the uninterrupted run
/// dispatches 0,1,2 (C03 rule); `same` forces a three-way tie at one symbolic instant.
fn c10_cut_k(n: usize, t: u32, tmax: u32, same: bool, k: usize) {
    let mut rt = mk_rt(n, t, RuntimeLimit::None);
    let a = any_in(0, tmax);
    let (b, c) = if same { (a, a) } else { (any_in(a, tmax), any_in(a, tmax)) };
    kani::assume(b <= c);
    let ts = [a, b, c];
    rt.add_event(Ev::Leaf(0), st(a));
    rt.add_event(Ev::Leaf(1), st(b));
    rt.add_event(Ev::Leaf(2), st(c));
    rt.dispatch_n_events(k);
    assert!(rt.num_events_dispatched() == k, "C10 dispatch_n_events(n) dispatches exactly n events");
    assert!(rt.app.n == k, "C10 exactly n handlers ran");
    assert!(rt.num_events_remaining() == 3 - k, "C10 undelivered events are counted as remaining");
    assert!(rt.sim_time() == st(ts[k - 1]), "C10 paused runtime reports the time of the last dispatched event");
    kani::cover!(a == b && b == c && a == 0, "COVER cut inside a same-instant group at time zero");
    kani::cover!(a == b && b == c && a > 0, "COVER cut inside a same-instant group at a later instant");
    kani::cover!(ts[k - 1] < ts[k], "COVER cut between different instants");
    // resume (straight-line dispatch_event calls: same code path as dispatch_all's loop body)
    let mut i = k;
    while i < 3 {
        let stop = rt.dispatch_event();
        assert!(!stop, "C10 resumed run still has the undelivered events");
        i += 1;
    }
    let stop = rt.dispatch_event();
    assert!(stop && rt.app.n == 3, "C10 stepping then resuming executes every event exactly once");
    let mut i = 0;
    while i < 3 {
        assert!(rt.app.ids[i] as usize == i, "C10 stepped run executes events in the same order as an uninterrupted run");
        assert!(rt.app.times[i] == ts[i], "C10 stepped run executes events at the same simulated times");
        i += 1;
    }
    kani::cover!(true, "REACH end of harness");
    std::mem::forget(rt);
}
rt_harness!(c10_cut1_same_instant_n1t8, 5, c10_cut_k(1, 8, 3, true, 1));
rt_harness!(c10_cut1_n1t8, 5, c10_cut_k(1, 8, 3, false, 1));
rt_harness!(c10_cut2_n1t8, 5, c10_cut_k(1, 8, 3, false, 2));
rt_harness!(c10_cut1_same_instant_n1t2, 5, c10_cut_k(1, 2, 3, true, 1));
rt_harness!(c10_cut2_same_instant_n1t2, 5, c10_cut_k(1, 2, 3, true, 2));
rt_harness!(c10_cut1_n1t2, 5, c10_cut_k(1, 2, 3, false, 1));
rt_harness!(c10_cut2_n1t2, 5, c10_cut_k(1, 2, 3, false, 2));
rt_harness!(c10_cut1_n2t1, 5, c10_cut_k(2, 1, 3, false, 1));

/// after a cut, the paused runtime accepts new events at any time >= the reported time
fn c10_paused_add(n: usize, t: u32, tmax: u32) {
    let mut rt = mk_rt(n, t, RuntimeLimit::None);
    let a = any_in(0, tmax);
    let b = any_in(a, tmax);
    rt.add_event(Ev::Leaf(0), st(a));
    rt.add_event(Ev::Leaf(1), st(b));
    rt.dispatch_n_events(1);
    assert!(rt.num_events_dispatched() == 1 && rt.sim_time() == st(a), "C10 paused runtime reports the time of the last dispatched event");
    let x = any_in(a, tmax + 1);
    kani::cover!(x < b, "REACH externally added event earlier than the put-back event");
    rt.add_event(Ev::Leaf(2), st(x));
    assert!(rt.num_events_remaining() == 2, "C10 paused runtime accepts new events at any time not earlier than the reported time");
    let stop = rt.dispatch_event();
    assert!(!stop && rt.app.n == 2, "C10 resumed run dispatches the next event");
    // next event is the earlier of the two.  Tie x == b (C03 rule): if the tie is at the current
    // instant a > 0 the new event is a current-instant event and runs first (b was scheduled for
    // that instant while it was still in the future); at a == 0 both are current-instant events
    // and keep scheduling order; on a later tie the older event runs first.
    let new_first = x < b || (x == b && x == a && a > 0);
    let (wid, wt) = if new_first { (2u8, x) } else { (1u8, b) };
    assert!(rt.app.ids[1] == wid && rt.app.times[1] == wt, "C10 events after an external add still run in timestamp order");
    kani::cover!(x == b, "COVER externally added event ties with the pending one");
    kani::cover!(true, "REACH end of harness");
    std::mem::forget(rt);
}
rt_harness!(c10_paused_add_n1t8, 5, c10_paused_add(1, 8, 3));
rt_harness!(c10_paused_add_n2t1, 5, c10_paused_add(2, 1, 3));
rt_harness!(c10_paused_add_n1t2, 5, c10_paused_add(1, 2, 3));

/// dispatch_events_until(T') dispatches exactly the events with timestamp <= T'
fn c10_until(n: usize, t: u32, tmax: u32) {
    let mut rt = mk_rt(n, t, RuntimeLimit::None);
    let a = any_in(0, tmax);
    let b = any_in(0, tmax);
    rt.add_event(Ev::Leaf(0), st(a));
    rt.add_event(Ev::Leaf(1), st(b));
    let lim = any_in(0, tmax);
    rt.dispatch_events_until(st(lim));
    let want = (a <= lim) as usize + (b <= lim) as usize;
    assert!(rt.num_events_dispatched() == want && rt.app.n == want, "C10 dispatch_events_until(t) dispatches exactly the events with timestamp <= t");
    assert!(rt.num_events_remaining() == 2 - want, "C10 undelivered events are counted as remaining");
    if want > 0 {
        let last = if want == 2 { if a > b { a } else { b } } else if a <= lim { a } else { b };
        assert!(rt.sim_time() == st(last), "C10 paused runtime reports the time of the last dispatched event");
    }
    rt.dispatch_all();
    assert!(rt.app.n == 2, "C10 stepping then dispatch_all executes every event exactly once");
    assert!(rt.app.times[0] <= rt.app.times[1], "C10 stepped run executes events in timestamp order");
    let (ta, tb) = if b < a { (b, a) } else { (a, b) };
    assert!(rt.app.times[0] == ta && rt.app.times[1] == tb, "C10 stepped run executes events at the same simulated times");
    kani::cover!(want == 1, "REACH until-cut between two events");
    kani::cover!(true, "REACH end of harness");
    std::mem::forget(rt);
}
rt_harness!(c10_until_n1t8, 5, c10_until(1, 8, 3));
rt_harness!(c10_until_n1t2, 5, c10_until(1, 2, 3));
rt_harness!(c10_until_n2t1, 5, c10_until(2, 1, 3));

/// one pending event: dispatch_events_until(T') dispatches it iff its timestamp <= T';
/// dispatch_n_events(0) dispatches nothing; the configured limit is restored afterwards
fn c10_until1(n: usize, t: u32) {
    let mut rt = mk_rt(n, t, RuntimeLimit::EventCount(7));
    let a = any_in(0, 3);
    rt.add_event(Ev::Leaf(0), st(a));
    rt.dispatch_n_events(0);
    assert!(rt.num_events_dispatched() == 0 && rt.num_events_remaining() == 1 && rt.app.n == 0, "C10 dispatch_n_events(0) dispatches nothing and loses nothing");
    let lim = any_in(0, 3);
    rt.dispatch_events_until(st(lim));
    let want = (a <= lim) as usize;
    assert!(rt.num_events_dispatched() == want && rt.app.n == want, "C10 dispatch_events_until(t) dispatches exactly the events with timestamp <= t");
    assert!(rt.num_events_remaining() == 1 - want, "C10 undelivered events are counted as remaining");
    assert!(rt.sim_time() == st(if want == 1 { a } else { 0 }), "C10 paused runtime reports the time of the last dispatched event");
    assert!(rt.limit == RuntimeLimit::EventCount(7), "C10 stepping restores the configured limit");
    kani::cover!(a == lim, "REACH event exactly at the until-time");
    kani::cover!(true, "REACH end of harness");
    std::mem::forget(rt);
}
rt_harness!(c10_until1_n1t8, 5, c10_until1(1, 8));

// ---------------------------------------------------------------------------
// C11
// ---------------------------------------------------------------------------

/// limit of a *concrete* shape with symbolic parameters (a symbolic shape would make CBMC
/// unroll the recursive `applies`/drop glue exponentially up to the loop bound).
/// 0 None, 1 EventCount(n), 2 SimTime(T), 3 And(EventCount, SimTime), 4 Or(EventCount, SimTime),
/// 5 Or(SimTime, EventCount) built the way Builder::max_time(..).max_itr(..) composes limits
fn mk_limit(shape: u8, n: usize, t: u32) -> RuntimeLimit {
    let t = st(t);
    match shape {
        0 => RuntimeLimit::None,
        1 => RuntimeLimit::EventCount(n),
        2 => RuntimeLimit::SimTime(t),
        3 => RuntimeLimit::CombinedAnd(Box::new(RuntimeLimit::EventCount(n)), Box::new(RuntimeLimit::SimTime(t))),
        4 => RuntimeLimit::CombinedOr(Box::new(RuntimeLimit::EventCount(n)), Box::new(RuntimeLimit::SimTime(t))),
        _ => {
            let mut l = RuntimeLimit::None;
            l.add(RuntimeLimit::SimTime(t));
            l.add(RuntimeLimit::EventCount(n));
            l
        }
    }
}

/// specification: does a limit of `shape` stop before the `count`-th event at time `time`?
fn stops(shape: u8, n: usize, t: u32, count: usize, time: u32) -> bool {
    let c = count > n;
    let tm = time > t;
    match shape {
        0 => false,
        1 => c,
        2 => tm,
        3 => c && tm,
        _ => c || tm,
    }
}

/// ONE dispatch step from an arbitrary point of a run: `itr` events already dispatched
/// (symbolic), two pending events at symbolic times, limit of the given shape with symbolic
/// parameters.  The step either stops (nothing handled, nothing lost) or handles exactly the
/// earliest event - by induction a run dispatches exactly the longest admitted prefix.
fn c11_step(nb: usize, tb: u32, shape: u8) {
    let n: usize = kani::any();
    kani::assume(n <= 4);
    let t = any_in(0, 4);
    let mut rt = mk_rt(nb, tb, mk_limit(shape, n, t));
    let k: usize = kani::any();
    kani::assume(k <= 4);
    rt.itr = k;
    let a = any_in(0, 3);
    let b = any_in(0, 3);
    rt.add_event(Ev::Leaf(0), st(a));
    rt.add_event(Ev::Leaf(1), st(b));
    let (fid, ft) = if b < a { (1u8, b) } else { (0u8, a) };
    let stop = rt.dispatch_event();
    let want = stops(shape, n, t, k + 1, ft);
    assert!(stop == want, "C11 the run stops exactly when the limit (EventCount: count > n, SimTime: time > T, And/Or: logical combination) first holds for the next event");
    if stop {
        assert!(rt.app.n == 0, "C11 no event beyond the stopping point is executed");
        assert!(rt.num_events_remaining() == 2, "C11 none of the undelivered events is lost");
        assert!(rt.num_events_dispatched() == k, "C11 dispatched counter unchanged by a stop");
        assert!(SimTime::now() == st(0), "C11 reported time stays the timestamp of the last dispatched event");
    } else {
        assert!(rt.app.n == 1 && rt.app.ids[0] == fid && rt.app.times[0] == ft, "C11 an admitted step handles exactly the earliest pending event");
        assert!(rt.num_events_remaining() == 1 && rt.num_events_dispatched() == k + 1, "C11 counters after an admitted step");
        assert!(SimTime::now() == st(ft), "C11 time after an admitted step is the event's timestamp");
    }
    kani::cover!(stop, "COVER limit stops");
    kani::cover!(!stop, "COVER limit admits");
    kani::cover!(true, "REACH end of harness");
    std::mem::forget(rt);
}
rt_harness!(c11_step_none_n1t8, 5, c11_step(1, 8, 0));
rt_harness!(c11_step_count_n1t8, 5, c11_step(1, 8, 1));
rt_harness!(c11_step_time_n1t8, 5, c11_step(1, 8, 2));
rt_harness!(c11_step_and_n1t8, 5, c11_step(1, 8, 3));
rt_harness!(c11_step_or_n1t8, 5, c11_step(1, 8, 4));
rt_harness!(c11_step_builder_or_n1t8, 5, c11_step(1, 8, 5));
rt_harness!(c11_step_count_n2t1, 5, c11_step(2, 1, 1));
rt_harness!(c11_step_or_n2t1, 5, c11_step(2, 1, 4));

/// finish() after a stop: every undelivered event is returned with its timestamp, in time
/// order; the end time is the time of the last dispatched event; event_count exact.
fn c11_finish(nb: usize, tb: u32) {
    let mut rt = mk_rt(nb, tb, RuntimeLimit::EventCount(0));
    let k: usize = kani::any();
    kani::assume(k <= 4);
    rt.itr = k;
    let now = any_in(0, 2);
    SimTime::set_now(st(now));
    let a = any_in(now, 3);
    let b = any_in(now, 3);
    rt.add_event(Ev::Leaf(0), st(a));
    rt.add_event(Ev::Leaf(1), st(b));
    let (i0, t0, i1, t1) = if b < a { (1u8, b, 0u8, a) } else { (0u8, a, 1u8, b) };
    match rt.finish() {
        Ok((app, end, prof)) => {
            assert!(app.n == 0, "C11 finish executes no further event");
            assert!(end == st(now), "C11 reported end time is the timestamp of the last dispatched event");
            assert!(prof.event_count == k, "C11 profiler event_count exact");
            assert!(prof.remaining.len() == 2, "C11 none of the undelivered events is lost");
            assert!(prof.remaining[0].0 == Ev::Leaf(i0) && prof.remaining[0].1 == st(t0), "C11 remaining events returned in time order with their timestamps (first)");
            assert!(prof.remaining[1].0 == Ev::Leaf(i1) && prof.remaining[1].1 == st(t1), "C11 remaining events returned in time order with their timestamps (second)");
            kani::cover!(true, "REACH end of harness");
            std::mem::forget((app, prof));
        }
        Err(_) => assert!(false, "C11 finish must not fail"),
    }
}
rt_harness!(c11_finish_returns_remaining_n1t8, 5, c11_finish(1, 8));
