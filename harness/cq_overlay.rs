//! Overlay mounted as `des_cqueue::stable::verif_pub` (cfg(kani) only).
//! Small-capacity constructor + allocator stubs, usable from dependent crates.
//! Every item here is listed as a stub/cut in DESIGN.md §3.
use super::*;
use std::collections::VecDeque;
use std::alloc::Layout;
use std::ptr::NonNull;
use std::time::Duration;

/// Field-for-field the body of `CQueue::new` except for the capacity of the
/// zero bucket (2 instead of 64) and the page size (64 instead of FFI sysconf).
/// `c01_new_*` harnesses compare the real constructor against this one.
pub fn new_small<E>(n: usize, t: Duration) -> CQueue<E> {
    new_cap(n, t, 2)
}

/// Same with capacity 4: three zero-bucket insertions never trigger `VecDeque::grow`
/// (realloc + symbolic-length memcpy, which CBMC cannot bit-blast within memory).
pub fn new_small4<E>(n: usize, t: Duration) -> CQueue<E> {
    new_cap(n, t, 4)
}

fn new_cap<E>(n: usize, t: Duration, cap: usize) -> CQueue<E> {
    let t_all = t.as_nanos() * n as u128;
    let mut alloc = Box::new(CQueueLLAllocatorInner::with_page_size(64));
    CQueue {
        n,
        t_nanos: t.as_nanos(),
        t,
        zero_event_bucket: VecDeque::with_capacity(cap),
        buckets: std::iter::repeat_with(|| DualLinkedList::new(alloc.handle()))
            .take(n)
            .collect(),
        head: 0,
        t_current: Duration::ZERO,
        t0: Duration::ZERO,
        t1: t,
        t_all,
        alloc,
        event_id: 0,
        len: 0,
    }
}

pub fn sys_allocate(_s: &mut CQueueLLAllocator, layout: Layout) -> Result<*mut u8, ()> {
    let p = unsafe { std::alloc::alloc(layout) };
    if p.is_null() {
        Err(())
    } else {
        Ok(p)
    }
}

pub unsafe fn sys_deallocate(_s: &mut CQueueLLAllocator, ptr: NonNull<u8>, layout: Layout) {
    std::alloc::dealloc(ptr.as_ptr(), layout)
}

pub fn page64() -> usize {
    64
}
pub fn page128() -> usize {
    128
}
pub fn page256() -> usize {
    256
}

/// Stub for the private `VecDeque::grow`: the overlay capacity (4) is a stated bound of the
/// harnesses; reaching `grow` is reported as a bound violation (INCONCLUSIVE), never ignored.
/// Real `grow` = realloc + symbolic-length memcpy, which exhausts memory in CBMC's bit-blasting.
pub fn no_grow<T, A: std::alloc::Allocator>(_this: &mut VecDeque<T, A>) {
    panic!("VERIF-BOUND zero bucket exceeded overlay capacity")
}

/// Stub for `VecDeque::remove` (std, not code under test): same observable behaviour
/// (removes and returns element `index`, keeps the order of the others) expressed with
/// element swaps + `pop_back` instead of a symbolic-length `memmove` (`wrap_copy`), which
/// exhausts memory in CBMC's bit-blasting.
pub fn remove_by_swaps<T, A: std::alloc::Allocator>(this: &mut VecDeque<T, A>, index: usize) -> Option<T> {
    let len = this.len();
    if index >= len {
        return None;
    }
    let mut k = index;
    while k + 1 < len {
        this.swap(k, k + 1);
        k += 1;
    }
    this.pop_back()
}

/// Stub for `VecDeque::insert` (std, not code under test): same observable behaviour expressed
/// with `push_back` + element swaps instead of a symbolic-length `memmove`.
pub fn insert_by_swaps<T, A: std::alloc::Allocator>(this: &mut VecDeque<T, A>, index: usize, value: T) {
    let len = this.len();
    assert!(index <= len, "index out of bounds");
    this.push_back(value);
    let mut k = len;
    while k > index {
        this.swap(k - 1, k);
        k -= 1;
    }
}

/// Stub for `std::alloc::realloc` (environment, not code under test): allocate-copy-free with a
/// word-wise bounded copy loop instead of Kani's C model, whose `memcpy` with a symbolic length
/// (a `Vec`/`VecDeque` growing under a symbolic path condition) exhausts memory in CBMC.
/// Bound: at most 32 words (256 bytes) are copied; larger copies trip the VERIF-BOUND assertion.
pub unsafe fn realloc_nonnull_words(ptr: NonNull<u8>, layout: Layout, new_size: usize) -> *mut u8 {
    realloc_words(ptr.as_ptr(), layout, new_size)
}

pub unsafe fn realloc_words(ptr: *mut u8, layout: Layout, new_size: usize) -> *mut u8 {
    let new = std::alloc::alloc(Layout::from_size_align_unchecked(new_size, layout.align()));
    let n = if layout.size() < new_size { layout.size() } else { new_size };
    if n % 8 == 0 && layout.align() >= 8 {
        assert!(n <= 256, "VERIF-BOUND realloc copy larger than 256 bytes");
        let src = ptr as *const u64;
        let dst = new as *mut u64;
        let mut i = 0;
        while i < 32 {
            if i * 8 < n {
                dst.add(i).write(src.add(i).read());
            }
            i += 1;
        }
    } else {
        assert!(n <= 32, "VERIF-BOUND unaligned realloc copy larger than 32 bytes");
        let mut i = 0;
        while i < 32 {
            if i < n {
                new.add(i).write(ptr.add(i).read());
            }
            i += 1;
        }
    }
    std::alloc::dealloc(ptr, layout);
    new
}
