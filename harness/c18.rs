//! C18 harnesses: string grammar of the NDL definition types is total (never panics) and the
//! parsed value is the one the text denotes.  Child module of `des_net_utils::ndl::def`.
//! Every byte string of a fixed length over a small alphabet is one solver query.
#![allow(dead_code, unused_imports, clippy::all)]
use super::*;
use std::str::FromStr;

fn sym_from(alpha: &[u8]) -> u8 {
    let i: usize = kani::any();
    kani::assume(i < alpha.len());
    alpha[i]
}

const A_FIELD: [u8; 6] = [b'a', b'[', b']', b'1', b'0', b'/'];
const A_TYP: [u8; 4] = [b'a', b'(', b')', b','];
const A_GEN: [u8; 4] = [b'a', b'<', b'-', b' '];

/// oracle for FieldDef on a concrete-length string
fn check_field(s: &str) {
    let r = FieldDef::from_str(s);
    let b = s.as_bytes();
    let n = b.len();
    let ends = n > 0 && b[n - 1] == b']';
    match r {
        Ok(f) => {
            if ends {
                // ident = text before the first '['
                let mut k = 0;
                while k < n && b[k] != b'[' {
                    k += 1;
                }
                assert!(k < n, "C18 a cluster field needs an opening bracket");
                assert!(f.ident.len() == k, "C18 field identifier is the text before the bracket");
                assert!(matches!(f.kardinality, Kardinality::Cluster(_)), "C18 a bracketed field is a cluster");
            } else {
                assert!(f.ident.len() == n && f.kardinality == Kardinality::Atom, "C18 an unbracketed field is an atom named by the whole text");
            }
            std::mem::forget(f);
        }
        Err(e) => {
            assert!(ends, "C18 only bracketed fields can be malformed");
            std::mem::forget(e);
        }
    }
}

macro_rules! str_harness {
    ($name:ident, $n:expr, $alpha:expr, $unwind:expr, $check:ident) => {
        #[kani::proof]
        #[kani::unwind($unwind)]
        fn $name() {
            let mut b = [0u8; $n];
            let mut i = 0;
            while i < $n {
                b[i] = sym_from(&$alpha);
                i += 1;
            }
            let s = unsafe { std::str::from_utf8_unchecked(&b) };
            $check(s);
            kani::cover!(true, "REACH end of harness");
        }
    };
}

str_harness!(c18_field_def_len2, 2, A_FIELD, 8, check_field);
str_harness!(c18_field_def_len3, 3, A_FIELD, 8, check_field);
str_harness!(c18_field_def_len4, 4, A_FIELD, 10, check_field);

/// TypClause<String>: never panics; without '(' the whole text is the identifier
fn check_typ(s: &str) {
    let r = TypClause::<String>::from_str(s);
    let b = s.as_bytes();
    let mut has_paren = false;
    let mut i = 0;
    while i < b.len() {
        if b[i] == b'(' {
            has_paren = true;
        }
        i += 1;
    }
    match r {
        Ok(t) => {
            if !has_paren {
                assert!(t.ident.len() == b.len() && t.args.len() == 0, "C18 a type clause without arguments is its identifier");
            } else {
                assert!(b[b.len() - 1] == b')', "C18 a type clause with arguments must be closed by ')'");
            }
            std::mem::forget(t);
        }
        Err(e) => {
            assert!(has_paren, "C18 only clauses with an argument list can be malformed");
            std::mem::forget(e);
        }
    }
}
str_harness!(c18_typ_clause_len2, 2, A_TYP, 8, check_typ);
str_harness!(c18_typ_clause_len3, 3, A_TYP, 8, check_typ);

/// ModuleGenericsDef: "binding <- bound"; Err iff there is no "<-"
fn check_gen(s: &str) {
    let r = ModuleGenericsDef::from_str(s);
    let b = s.as_bytes();
    let mut has = false;
    let mut i = 0;
    while i + 1 < b.len() {
        if b[i] == b'<' && b[i + 1] == b'-' {
            has = true;
        }
        i += 1;
    }
    assert!(r.is_ok() == has, "C18 a generics clause is accepted iff it contains '<-'");
    std::mem::forget(r);
}
str_harness!(c18_generics_def_len3, 3, A_GEN, 8, check_gen);

/// ConnectionEndpointDef: '/'-separated fields; total
fn check_endpoint(s: &str) {
    let r = ConnectionEndpointDef::from_str(s);
    let b = s.as_bytes();
    let mut slashes = 0;
    let mut i = 0;
    while i < b.len() {
        if b[i] == b'/' {
            slashes += 1;
        }
        i += 1;
    }
    if let Ok(e) = &r {
        assert!(e.accessors.len() == slashes + 1, "C18 an endpoint has one accessor per '/'-separated part");
    }
    std::mem::forget(r);
}
str_harness!(c18_endpoint_def_len3, 3, A_FIELD, 8, check_endpoint);


/// TypClause<String> on the family  <x> '(' <y>  with x in {a,b}, y in {a, ')', '('}: never
/// panics; accepted iff closed by ')'
#[kani::proof]
#[kani::unwind(8)]
fn c18_typ_clause_open_paren() {
    let x = sym_from(&[b'a', b'b']);
    let y = sym_from(&[b'a', b')', b'(']);
    let b = [x, b'(', y];
    let s = unsafe { std::str::from_utf8_unchecked(&b) };
    let r = TypClause::<String>::from_str(s);
    match r {
        Ok(t) => {
            assert!(y == b')', "C18 a type clause with arguments must be closed by ')'");
            assert!(t.ident.len() == 1 && t.ident.as_bytes()[0] == x, "C18 identifier is the text before '('");
            std::mem::forget(t);
        }
        Err(e) => {
            assert!(y != b')', "C18 a well-formed clause is accepted");
            std::mem::forget(e);
        }
    }
    kani::cover!(y != b')', "REACH unclosed argument list");
    kani::cover!(true, "REACH end of harness");
}

/// the two-byte family  <x> '('
#[kani::proof]
#[kani::unwind(8)]
fn c18_typ_clause_unclosed2() {
    let x = sym_from(&[b'a', b'b', b'(']);
    let b = [x, b'('];
    let s = unsafe { std::str::from_utf8_unchecked(&b) };
    let r = TypClause::<String>::from_str(s);
    assert!(r.is_err(), "C18 an unclosed argument list is a descriptive error, not a crash");
    std::mem::forget(r);
    kani::cover!(true, "REACH end of harness");
}
