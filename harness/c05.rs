//! C05 harnesses: per-module timer queue, Sleep / Timeout / Interval polling — step level
//! (one operation from a directly constructed valid state, all deadlines/now symbolic).
//! Mounted as a child module of `des::time::driver` (cfg(kani) only).
//!
//! Stubs: Arc::drop_slow -> no-op (TimerSlot <-> TimerQueue reference cycle makes the drop glue
//! recursive; destruction is not claimed here), VecDeque::{insert,remove} -> element swaps
//! (std; avoids symbolic-length memmove), Driver::{set,unset,with_current} -> same bodies over
//! a static instead of `thread_local!` storage (kani-compiler ICE on TLS destructors).
#![allow(dead_code, unused_imports, static_mut_refs, clippy::all)]
use super::*;
use crate::time::sleep::Sleep;
use crate::time::{Duration, SimTime};
use des_cqueue::verif_pub as vp;
use std::future::Future;
use std::pin::Pin;
use std::sync::Arc;
use std::task::{Context, Poll, RawWaker, RawWakerVTable, Waker};

unsafe fn arc_drop_slow_noop<T: ?Sized, A: std::alloc::Allocator>(_this: &mut Arc<T, A>) {}

// ------------------------------------------------------------------ thread-local -> static
// `thread_local!` storage with a destructor makes kani-compiler 0.68 panic (intrinsics.rs:243);
// the per-thread slot holding the current module's Driver is replaced by a plain static.
static mut DRV: Option<Driver> = None;
fn set_stub(this: Driver) -> Option<Driver> {
    unsafe { DRV.replace(this) }
}
fn unset_stub() -> Option<Driver> {
    unsafe { DRV.take() }
}
fn with_current_stub<R>(f: impl FnOnce(&mut Driver) -> R) -> R {
    unsafe { f(DRV.as_mut().expect("no IO time driver provided")) }
}

// ------------------------------------------------------------------ counting waker
static mut WAKES: [u8; 4] = [0; 4];

unsafe fn w_clone(d: *const ()) -> RawWaker {
    RawWaker::new(d, &VT)
}
unsafe fn w_wake(d: *const ()) {
    WAKES[d as usize] += 1;
}
unsafe fn w_drop(_d: *const ()) {}
static VT: RawWakerVTable = RawWakerVTable::new(w_clone, w_wake, w_wake, w_drop);

fn waker(i: usize) -> Waker {
    unsafe { Waker::from_raw(RawWaker::new(i as *const (), &VT)) }
}
fn wakes(i: usize) -> u8 {
    unsafe { WAKES[i] }
}

fn st(ns: u32) -> SimTime {
    SimTime::from_duration(Duration::new(0, ns))
}
fn any_in(lo: u32, hi: u32) -> u32 {
    let t: u32 = kani::any();
    kani::assume(t >= lo && t <= hi);
    t
}

// ------------------------------------------------------------------ state construction
fn push_slot(q: &Arc<TimerQueue>, time: SimTime, live: bool, id: usize) {
    let slot = TimerSlot::new(time, q.clone());
    if live {
        slot.add(TimerSlotEntry { waker: waker(id), id });
    }
    q.pending.borrow_mut().push_back(Arc::new(slot));
}

/// slot i of the queue (None if out of range): (time, number of entries, id of entry 0, id of entry 1)
fn slot(q: &Arc<TimerQueue>, i: usize) -> Option<(SimTime, usize, usize, usize)> {
    let p = q.pending.borrow();
    if i >= p.len() {
        return None;
    }
    let e = p[i].entrys.borrow();
    let n = e.len();
    let id0 = if n > 0 { e[0].id } else { usize::MAX };
    let id1 = if n > 1 { e[1].id } else { usize::MAX };
    Some((p[i].time, n, id0, id1))
}

fn qlen(q: &Arc<TimerQueue>) -> usize {
    q.pending.borrow().len()
}

/// representation invariant (<= 3 slots): strictly sorted by time, back pointers correct
fn inv(q: &Arc<TimerQueue>) -> bool {
    let p = q.pending.borrow();
    let n = p.len();
    if n > 3 {
        return false;
    }
    if n >= 2 && !(p[0].time < p[1].time) {
        return false;
    }
    if n >= 3 && !(p[1].time < p[2].time) {
        return false;
    }
    (n < 1 || Arc::ptr_eq(&p[0].queue, q)) && (n < 2 || Arc::ptr_eq(&p[1].queue, q)) && (n < 3 || Arc::ptr_eq(&p[2].queue, q))
}

fn has(s: Option<(SimTime, usize, usize, usize)>, id: usize) -> usize {
    match s {
        Some((_, n, a, b)) => (n > 0 && a == id) as usize + (n > 1 && b == id) as usize,
        None => 0,
    }
}

/// (number of registrations of timer `id` over the first 3 slots, time of the first such slot)
fn find_entry(q: &Arc<TimerQueue>, id: usize) -> (usize, SimTime) {
    let (s0, s1, s2) = (slot(q, 0), slot(q, 1), slot(q, 2));
    let n = has(s0, id) + has(s1, id) + has(s2, id);
    let t = if has(s0, id) > 0 {
        s0.unwrap().0
    } else if has(s1, id) > 0 {
        s1.unwrap().0
    } else if has(s2, id) > 0 {
        s2.unwrap().0
    } else {
        SimTime::MAX
    };
    (n, t)
}

macro_rules! tq_harness {
    ($name:ident, $unwind:expr, $body:expr) => {
        #[kani::proof]
        #[kani::unwind($unwind)]
        #[kani::stub(std::sync::Arc::drop_slow, arc_drop_slow_noop)]
        #[kani::stub(std::collections::VecDeque::insert, vp::insert_by_swaps)]
        #[kani::stub(std::collections::VecDeque::remove, vp::remove_by_swaps)]
        #[kani::stub(Driver::set, set_stub)]
        #[kani::stub(Driver::unset, unset_stub)]
        #[kani::stub(Driver::with_current, with_current_stub)]
        fn $name() {
            $body
        }
    };
}

// ------------------------------------------------------------------ next()
/// three slots at strictly increasing symbolic times, each live or emptied (a dropped sleep /
/// finished timeout leaves an empty slot): next() = earliest deadline among LIVE slots
fn next3() {
    let q = Arc::new(TimerQueue::new());
    let t0 = any_in(1, 5);
    let t1 = any_in(t0 + 1, 6);
    let t2 = any_in(t1 + 1, 7);
    let l0: bool = kani::any();
    let l1: bool = kani::any();
    let l2: bool = kani::any();
    push_slot(&q, st(t0), l0, 0);
    push_slot(&q, st(t1), l1, 1);
    push_slot(&q, st(t2), l2, 2);
    assert!(inv(&q), "C05 constructed state satisfies the queue invariant");
    let want = if l0 { Some(st(t0)) } else if l1 { Some(st(t1)) } else if l2 { Some(st(t2)) } else { None };
    let got = q.next();
    assert!(got == want, "C05 next() is the earliest deadline among live timers (an emptied earlier slot must not hide a later live timer)");
    kani::cover!(!l0 && l1, "REACH emptied front slot precedes a live timer");
    kani::cover!(true, "REACH end of harness");
    std::mem::forget(q);
}
tq_harness!(c05_next_earliest_live, 5, next3());

// ------------------------------------------------------------------ bump()
fn bump2() {
    let q = Arc::new(TimerQueue::new());
    let t0 = any_in(1, 5);
    let t1 = any_in(t0 + 1, 6);
    let l0: bool = kani::any();
    push_slot(&q, st(t0), l0, 0);
    push_slot(&q, st(t1), true, 1);
    let now = any_in(0, 7);
    SimTime::set_now(st(now));
    let woken = q.bump();
    let due = (t0 <= now) as usize + (t1 <= now) as usize;
    assert!(woken.len() == due, "C05 bump returns exactly the slots with deadline <= now");
    assert!(qlen(&q) == 2 - due, "C05 bump leaves exactly the slots with deadline > now");
    if due < 2 {
        assert!(q.pending.borrow()[0].time > st(now), "C05 nothing with deadline > now is woken");
    }
    let mut i = 0;
    while i < woken.len() {
        assert!(woken[i].time <= st(now), "C05 a woken slot has deadline <= now");
        i += 1;
    }
    let mut it = woken.into_iter();
    if let Some(s) = it.next() {
        s.wake_all();
    }
    if let Some(s) = it.next() {
        s.wake_all();
    }
    assert!(wakes(0) == (l0 && t0 <= now) as u8, "C05 timer 0 woken iff live and its deadline is reached, exactly once");
    assert!(wakes(1) == (t1 <= now) as u8, "C05 timer 1 woken iff its deadline is reached, exactly once");
    kani::cover!(due == 1, "REACH partial bump");
    kani::cover!(now == t1, "REACH now exactly at a deadline");
    kani::cover!(true, "REACH end of harness");
    std::mem::forget((q, it));
}
tq_harness!(c05_bump_exactly_due, 4, bump2());

/// one slot (live or emptied), symbolic now: bump returns it iff due
fn bump1() {
    let q = Arc::new(TimerQueue::new());
    let t0 = any_in(1, 5);
    let l0: bool = kani::any();
    push_slot(&q, st(t0), l0, 0);
    let now = any_in(0, 6);
    SimTime::set_now(st(now));
    let woken = q.bump();
    let due = (t0 <= now) as usize;
    assert!(woken.len() == due, "C05 bump returns exactly the slots with deadline <= now");
    assert!(qlen(&q) == 1 - due, "C05 bump leaves exactly the slots with deadline > now");
    let mut it = woken.into_iter();
    if let Some(s) = it.next() {
        assert!(s.time <= st(now), "C05 a woken slot has deadline <= now");
        s.wake_all();
    }
    assert!(wakes(0) == (l0 && t0 <= now) as u8, "C05 timer woken iff live and its deadline is reached, exactly once");
    kani::cover!(now == t0, "REACH now exactly at the deadline");
    kani::cover!(true, "REACH end of harness");
    std::mem::forget((q, it));
}
tq_harness!(c05_bump_one_slot, 4, bump1());

/// add into a queue holding one slot: before / same deadline / after
fn add_into1() {
    let q = Arc::new(TimerQueue::new());
    let t0 = any_in(1, 5);
    push_slot(&q, st(t0), true, 0);
    let t = any_in(0, 6);
    let h = q.add(TimerSlotEntry { waker: waker(2), id: 2 }, st(t));
    assert!(inv(&q), "C05 queue stays strictly sorted after add");
    let (n, at) = find_entry(&q, 2);
    assert!(n == 1 && at == st(t), "C05 added timer registered exactly once at its deadline");
    assert!(qlen(&q) == if t == t0 { 1 } else { 2 }, "C05 add shares the slot of an equal deadline, otherwise creates one");
    assert!(find_entry(&q, 0) == (1, st(t0)), "C05 add does not disturb other timers");
    kani::cover!(t == t0, "REACH equal deadlines share a slot");
    kani::cover!(t < t0, "REACH insertion before the front");
    kani::cover!(t > t0, "REACH insertion after the back");
    kani::cover!(true, "REACH end of harness");
    std::mem::forget((q, h));
}
tq_harness!(c05_add_one_slot, 4, add_into1());

/// a registered timer is dropped (not fired): it is unregistered and next() skips its slot
fn drop_unregisters() {
    let q = Arc::new(TimerQueue::new());
    let t = any_in(1, 6);
    let h = q.add(TimerSlotEntry { waker: waker(1), id: 1 }, st(t));
    assert!(find_entry(&q, 1) == (1, st(t)) && q.next() == Some(st(t)), "C05 registered timer is the next wake-up");
    let fired: bool = kani::any();
    let mut h = h;
    if fired {
        h.resolve();
    }
    drop(h);
    if !fired {
        assert!(find_entry(&q, 1).0 == 0, "C05 a dropped timer is unregistered");
        assert!(q.next().is_none(), "C05 no wake-up is requested for a slot without live timers");
    }
    kani::cover!(true, "REACH end of harness");
    std::mem::forget(q);
}
tq_harness!(c05_drop_unregisters, 4, drop_unregisters());

/// reset moves the registration to the new deadline
fn reset_moves() {
    let q = Arc::new(TimerQueue::new());
    let t = any_in(1, 6);
    let h = q.add(TimerSlotEntry { waker: waker(1), id: 1 }, st(t));
    let t2 = any_in(1, 6);
    let h2 = h.reset(st(t2));
    assert!(h2.is_some(), "C05 reset of a registered timer yields a new registration");
    let (n, at) = find_entry(&q, 1);
    assert!(n == 1 && at == st(t2), "C05 reset moves the timer to the new deadline, exactly once");
    assert!(inv(&q), "C05 queue invariant preserved by reset");
    kani::cover!(t2 < t, "REACH reset to an earlier deadline");
    kani::cover!(t2 > t, "REACH reset to a later deadline");
    kani::cover!(true, "REACH end of harness");
    std::mem::forget((q, h2));
}
tq_harness!(c05_reset_moves_registration, 4, reset_moves());

/// first poll of a fresh Sleep
fn sleep_first_poll() {
    let q = install_driver();
    let now = any_in(0, 4);
    SimTime::set_now(st(now));
    let d = any_in(0, 6);
    let mut s = Box::pin(Sleep::new(st(d)));
    let id = s.id_for_verif();
    let r = poll_sleep(&mut s, 0);
    if d <= now {
        assert!(r == Poll::Ready(()), "C05 a deadline that is already reached completes immediately");
        assert!(qlen(&q) == 0, "C05 an elapsed sleep registers nothing");
    } else {
        assert!(r == Poll::Pending, "C05 sleep never completes before its deadline");
        assert!(find_entry(&q, id) == (1, st(d)) && qlen(&q) == 1, "C05 pending sleep is registered exactly once at its deadline");
        assert!(q.next() == Some(st(d)), "C05 the registered deadline is the next wake-up");
    }
    kani::cover!(d == now, "REACH deadline equals now");
    kani::cover!(true, "REACH end of harness");
    std::mem::forget((q, s));
}
tq_harness!(c05_sleep_first_poll, 4, sleep_first_poll());

// ------------------------------------------------------------------ add()
fn add_into2() {
    let q = Arc::new(TimerQueue::new());
    let t0 = any_in(1, 5);
    let t1 = any_in(t0 + 1, 6);
    push_slot(&q, st(t0), true, 0);
    push_slot(&q, st(t1), true, 1);
    let t = any_in(0, 7);
    let h = q.add(TimerSlotEntry { waker: waker(2), id: 2 }, st(t));
    assert!(inv(&q), "C05 queue stays strictly sorted after add");
    let (n, at) = find_entry(&q, 2);
    assert!(n == 1 && at == st(t), "C05 added timer registered exactly once at its deadline");
    let want_len = if t == t0 || t == t1 { 2 } else { 3 };
    assert!(q.pending.borrow().len() == want_len, "C05 add shares the slot of an equal deadline, otherwise creates one");
    assert!(find_entry(&q, 0) == (1, st(t0)) && find_entry(&q, 1) == (1, st(t1)), "C05 add does not disturb other timers");
    let up = h.handle.upgrade();
    assert!(up.is_some() && up.as_ref().unwrap().time == st(t), "C05 handle points at the slot of the deadline");
    kani::cover!(t == t0, "REACH equal deadlines share a slot");
    kani::cover!(t > t0 && t < t1, "REACH insertion between two slots");
    kani::cover!(t < t0, "REACH insertion before the front");
    kani::cover!(true, "REACH end of harness");
    std::mem::forget((q, h, up));
}
tq_harness!(c05_add_sorted_once, 6, add_into2());

// ------------------------------------------------------------------ handle drop / reset
fn handle_drop_and_reset() {
    let q = Arc::new(TimerQueue::new());
    let t0 = any_in(1, 5);
    push_slot(&q, st(t0), true, 0);
    let t = any_in(1, 7);
    let mut h = q.add(TimerSlotEntry { waker: waker(1), id: 1 }, st(t));
    let mode: u8 = kani::any();
    kani::assume(mode < 3);
    if mode == 0 {
        // dropped without having fired (sleep dropped / select! branch lost): unregistered
        drop(h);
        assert!(find_entry(&q, 1).0 == 0, "C05 a dropped timer is unregistered");
        assert!(find_entry(&q, 0) == (1, st(t0)), "C05 dropping a timer does not disturb other timers");
    } else if mode == 1 {
        // fired: resolve() then drop keeps nothing alive but must not touch other entries
        h.resolve();
        drop(h);
        assert!(find_entry(&q, 0) == (1, st(t0)), "C05 resolving a timer does not disturb other timers");
    } else {
        let t2 = any_in(1, 7);
        let h2 = h.reset(st(t2));
        assert!(h2.is_some(), "C05 reset of a registered timer yields a new registration");
        let (n, at) = find_entry(&q, 1);
        assert!(n == 1 && at == st(t2), "C05 reset moves the timer to the new deadline, exactly once");
        assert!(find_entry(&q, 0) == (1, st(t0)), "C05 reset does not disturb other timers");
        assert!(inv(&q), "C05 queue invariant preserved by reset");
        kani::cover!(t2 < t, "REACH reset to an earlier deadline");
        kani::cover!(t2 > t, "REACH reset to a later deadline");
        std::mem::forget(h2);
    }
    kani::cover!(mode == 0 && t == t0, "REACH drop of a timer sharing a slot");
    kani::cover!(true, "REACH end of harness");
    std::mem::forget(q);
}
tq_harness!(c05_handle_drop_resolve_reset, 6, handle_drop_and_reset());

// ------------------------------------------------------------------ Sleep::poll
fn install_driver() -> Arc<TimerQueue> {
    let d = Driver::new();
    let q = d.queue.clone();
    let _ = d.set();
    q
}

fn poll_sleep(s: &mut Pin<Box<Sleep>>, w: usize) -> Poll<()> {
    let wk = waker(w);
    let mut cx = Context::from_waker(&wk);
    s.as_mut().poll(&mut cx)
}

/// first poll + spurious re-poll + poll at the deadline
fn sleep_poll() {
    let q = install_driver();
    let now = any_in(0, 4);
    SimTime::set_now(st(now));
    let d = any_in(0, 6);
    let mut s = Box::pin(Sleep::new(st(d)));
    let id = s.id_for_verif();
    let r = poll_sleep(&mut s, 0);
    if d <= now {
        assert!(r == Poll::Ready(()), "C05 a deadline that is already reached completes immediately");
        assert!(find_entry(&q, id).0 == 0, "C05 an elapsed sleep registers nothing");
    } else {
        assert!(r == Poll::Pending, "C05 sleep never completes before its deadline");
        assert!(find_entry(&q, id) == (1, st(d)), "C05 pending sleep is registered exactly once at its deadline");
        assert!(q.next() == Some(st(d)), "C05 the registered deadline is the next wake-up");
        // spurious poll (select!): still exactly one registration
        let r2 = poll_sleep(&mut s, 0);
        assert!(r2 == Poll::Pending && find_entry(&q, id) == (1, st(d)), "C05 re-polling a pending sleep registers it only once");
        // time advances to some later instant
        let now2 = any_in(now, 7);
        SimTime::set_now(st(now2));
        let r3 = poll_sleep(&mut s, 0);
        assert!((r3 == Poll::Ready(())) == (d <= now2), "C05 sleep completes exactly when simulated time reaches its deadline");
        kani::cover!(now2 == d, "REACH poll exactly at the deadline");
    }
    kani::cover!(true, "REACH end of harness");
    std::mem::forget((q, s));
}
tq_harness!(c05_sleep_poll, 6, sleep_poll());

/// registered sleep, reset to a new deadline (earlier or later), polled again:
/// it must end up registered exactly once at the NEW deadline (or complete if that is reached)
fn sleep_reset() {
    let q = install_driver();
    SimTime::set_now(st(1));
    let d = any_in(2, 5);
    let mut s = Box::pin(Sleep::new(st(d)));
    let id = s.id_for_verif();
    let r = poll_sleep(&mut s, 0);
    assert!(r == Poll::Pending && find_entry(&q, id) == (1, st(d)), "C05 pending sleep is registered exactly once at its deadline");
    let d2 = any_in(0, 7);
    s.as_mut().reset(st(d2));
    assert!(s.deadline() == st(d2), "C05 reset changes the deadline");
    let r2 = poll_sleep(&mut s, 0);
    if d2 <= 1 {
        assert!(r2 == Poll::Ready(()), "C05 reset to a reached deadline completes immediately");
    } else {
        assert!(r2 == Poll::Pending, "C05 reset sleep is pending until the new deadline");
        let (n, at) = find_entry(&q, id);
        assert!(n == 1 && at == st(d2), "C05 after reset the timer is registered exactly once, at the new deadline (never lost, never left at the old one)");
        // the wake-up the module schedules must not be later than the new deadline
        let nx = q.next();
        assert!(nx.is_some() && nx.unwrap() <= st(d2), "C05 after reset a wake-up is due no later than the new deadline");
    }
    kani::cover!(d2 > d, "REACH reset to a later deadline");
    kani::cover!(d2 < d && d2 > 1, "REACH reset to an earlier deadline");
    kani::cover!(true, "REACH end of harness");
    std::mem::forget((q, s));
}
tq_harness!(c05_sleep_reset_reregisters, 6, sleep_reset());

/// registered sleep reset to a CONCRETE other deadline (queue insertion positions stay concrete,
/// only `now` is symbolic): after the reset nothing stays registered at the old deadline, the
/// next poll registers exactly once at the new deadline and that deadline is the next wake-up
fn sleep_reset_concrete(d: u32, d2: u32) {
    let q = install_driver();
    let now = any_in(0, 1);
    SimTime::set_now(st(now));
    let mut s = Box::pin(Sleep::new(st(d)));
    let id = s.id_for_verif();
    let r = poll_sleep(&mut s, 0);
    assert!(r == Poll::Pending && find_entry(&q, id) == (1, st(d)), "C05 pending sleep is registered exactly once at its deadline");
    s.as_mut().reset(st(d2));
    assert!(s.deadline() == st(d2), "C05 reset changes the deadline");
    let (n, at) = find_entry(&q, id);
    assert!(n == 0 || (n == 1 && at == st(d2)), "C05 after reset the timer is no longer registered at its old deadline");
    let r2 = poll_sleep(&mut s, 0);
    assert!(r2 == Poll::Pending, "C05 reset sleep is pending until the new deadline");
    let (n, at) = find_entry(&q, id);
    assert!(n == 1 && at == st(d2), "C05 after reset the timer is registered exactly once, at the new deadline (never lost, never left at the old one)");
    assert!(q.next() == Some(st(d2)), "C05 after reset the next wake-up is the new deadline");
    kani::cover!(true, "REACH end of harness");
    std::mem::forget((q, s));
}
tq_harness!(c05_sleep_reset_later, 5, sleep_reset_concrete(3, 6));
tq_harness!(c05_sleep_reset_earlier, 5, sleep_reset_concrete(6, 3));

// ------------------------------------------------------------------ Timeout::poll
struct Flag(bool);
impl Future for Flag {
    type Output = u8;
    fn poll(self: Pin<&mut Self>, _cx: &mut Context<'_>) -> Poll<u8> {
        if self.0 {
            Poll::Ready(7)
        } else {
            Poll::Pending
        }
    }
}

fn timeout_poll() {
    let q = install_driver();
    let now = any_in(0, 4);
    SimTime::set_now(st(now));
    let d = any_in(0, 6);
    let ready: bool = kani::any();
    let mut t = Box::pin(crate::time::timeout_at(st(d), Flag(ready)));
    let wk = waker(0);
    let mut cx = Context::from_waker(&wk);
    let r = t.as_mut().poll(&mut cx);
    if ready {
        assert!(matches!(r, Poll::Ready(Ok(7))), "C05 timeout returns the inner result iff the inner future completes no later than the deadline (even if the deadline has also passed)");
    } else if d <= now {
        assert!(matches!(r, Poll::Ready(Err(_))), "C05 timeout returns Elapsed when the deadline is reached and the inner future is not ready");
    } else {
        assert!(matches!(r, Poll::Pending), "C05 timeout is pending before the deadline while the inner future is pending");
        assert!(q.next() == Some(st(d)), "C05 pending timeout registers its deadline as wake-up");
    }
    kani::cover!(ready && d <= now, "REACH inner ready and deadline passed");
    kani::cover!(true, "REACH end of harness");
    std::mem::forget((q, t));
}
tq_harness!(c05_timeout_poll, 6, timeout_poll());

// ------------------------------------------------------------------ Interval::poll_tick
fn interval_tick() {
    use crate::time::MissedTickBehavior as M;
    let q = install_driver();
    let start = any_in(0, 3);
    let period = any_in(1, 3);
    let now = any_in(0, 4);
    SimTime::set_now(st(now));
    let mut iv = crate::time::interval_at(st(start), Duration::new(0, period));
    let wk = waker(0);
    let mut cx = Context::from_waker(&wk);
    let r = iv.poll_tick(&mut cx);
    if start <= now {
        assert!(r == Poll::Ready(st(start)), "C05 interval tick completes at its scheduled time and reports it");
        // not behind by more than 5 ms: next tick one period after the scheduled one
        let r2 = iv.poll_tick(&mut cx);
        let next = start + period;
        if next <= now {
            assert!(r2 == Poll::Ready(st(next)), "C05 interval ticks follow the period (burst of due ticks)");
        } else {
            assert!(r2 == Poll::Pending, "C05 next interval tick is not early");
            assert!(q.next() == Some(st(next)), "C05 next interval tick registered one period after the previous");
        }
    } else {
        assert!(r == Poll::Pending, "C05 interval does not tick before its start");
        assert!(q.next() == Some(st(start)), "C05 first interval tick registered at start");
    }
    kani::cover!(start <= now && start + period > now, "REACH tick then wait");
    kani::cover!(true, "REACH end of harness");
    std::mem::forget((q, iv));
}
tq_harness!(c05_interval_tick_period, 6, interval_tick());

/// MissedTickBehavior::next_timeout arithmetic against the documented formulas (u32-ns ranges)
#[kani::proof]
fn c05_missed_tick_formulas() {
    use crate::time::MissedTickBehavior as M;
    let timeout: u32 = kani::any();
    let now: u32 = kani::any();
    let period: u32 = kani::any();
    kani::assume(timeout <= 1000 && now >= timeout && now <= 2000 && period >= 1 && period <= 1000);
    let (t, n, p) = (st(timeout), st(now), Duration::new(0, period));
    assert!(M::Burst.next_timeout_for_verif(t, n, p) == st(timeout + period), "C05 Burst: next = scheduled + period");
    assert!(M::Delay.next_timeout_for_verif(t, n, p) == st(now + period), "C05 Delay: next = now + period");
    let skip = M::Skip.next_timeout_for_verif(t, n, p);
    let want = now + period - ((now - timeout) % period);
    assert!(skip == st(want), "C05 Skip: next = now + period - ((now - scheduled) mod period)");
    assert!(skip > n && (want - timeout) % period == 0, "C05 Skip: next tick is in the future and on the period grid");
    kani::cover!((now - timeout) % period != 0, "REACH off-grid now");
    kani::cover!(true, "REACH end of harness");
}
