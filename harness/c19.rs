//! C19 harnesses: graph queries on a directly built `Topology` (3 nodes, <= 2 out-edges per node,
//! symbolic edge presence and destinations).  Child module of `des::net::topology`.
//! Stubs as nr.rs for the one standalone module / two gates that every node and edge refers to.
//! `dijkstra` (FxHashMap result), `from_modules` / `spanned` (multi-module extraction) are outside.
#![allow(dead_code, unused_imports, static_mut_refs, clippy::all)]
use super::*;
use crate::net::module::ModuleContext;
use crate::tracing::ScopeToken;
use std::sync::Arc;

unsafe fn arc_drop_slow_noop<T: ?Sized, A: std::alloc::Allocator>(_this: &mut Arc<T, A>) {}
fn scope_stub(_p: ObjectPath) -> ScopeToken {
    unsafe { std::mem::transmute::<u64, ScopeToken>(0u64) }
}
fn native_setup() {
    struct ZeroRng;
    impl rand::RngCore for ZeroRng {
        fn next_u32(&mut self) -> u32 {
            0
        }
        fn next_u64(&mut self) -> u64 {
            0
        }
        fn fill_bytes(&mut self, d: &mut [u8]) {
            for b in d {
                *b = 0;
            }
        }
    }
    unsafe {
        *crate::runtime::RNG.get() = Some(Box::new(ZeroRng));
    }
}
fn native_setup_noop() {}

macro_rules! tp_harness {
    ($name:ident, $unwind:expr, $body:expr) => {
        #[kani::proof]
        #[kani::unwind($unwind)]
        #[kani::stub(crate::tracing::new_scope, scope_stub)]
        #[kani::stub(std::sync::Arc::drop_slow, arc_drop_slow_noop)]
        #[kani::stub(crate::net::module::ctx::rt::AsyncCoreExt::new, crate::net::module::verif_mod::async_ext_stub)]
        #[kani::stub(native_setup, native_setup_noop)]
        fn $name() {
            native_setup();
            $body
        }
    };
}

const N: usize = 3;

/// symbolic graph: cnt[i] in 0..=2 out-edges of node i, dst[i][k] < N
struct G {
    cnt: [usize; N],
    dst: [[usize; 2]; N],
}

fn any_graph() -> G {
    any_graph_max(2)
}

fn any_graph_max(maxc: usize) -> G {
    let mut g = G {
        cnt: [0; N],
        dst: [[0; 2]; N],
    };
    let mut i = 0;
    while i < N {
        let c: usize = kani::any();
        kani::assume(c <= maxc);
        g.cnt[i] = c;
        let d0: usize = kani::any();
        let d1: usize = kani::any();
        kani::assume(d0 < N && d1 < N);
        g.dst[i] = [d0, d1];
        i += 1;
    }
    g
}

impl G {
    fn has_edge(&self, s: usize, d: usize) -> bool {
        (self.cnt[s] > 0 && self.dst[s][0] == d) || (self.cnt[s] > 1 && self.dst[s][1] == d)
    }
}

fn build(g: &G) -> Topology<usize, ()> {
    let module = ModuleContext::standalone("h".into());
    let start = crate::net::gate::Gate::new(&module, "s", 1, 0);
    let end = crate::net::gate::Gate::new(&module, "e", 1, 0);
    let mut nodes = Vec::with_capacity(N);
    let mut edges: Vec<Vec<EdgeRaw<()>>> = Vec::with_capacity(N);
    let mut i = 0;
    while i < N {
        nodes.push(Node {
            data: i,
            module: module.clone(),
        });
        // capacity reserved: pushes under symbolic conditions must not reach RawVec::grow
        let mut b: Vec<EdgeRaw<()>> = Vec::with_capacity(2);
        if g.cnt[i] > 0 {
            b.push(EdgeRaw {
                dst: g.dst[i][0],
                data: (),
                start: start.clone(),
                end: end.clone(),
            });
        }
        if g.cnt[i] > 1 {
            b.push(EdgeRaw {
                dst: g.dst[i][1],
                data: (),
                start: start.clone(),
                end: end.clone(),
            });
        }
        edges.push(b);
        i += 1;
    }
    std::mem::forget((module, start, end));
    Topology { nodes, edges }
}

/// the global edge iterator yields every edge exactly once, in node order, attributed to the
/// node that owns it (also when edge-less nodes precede it)
fn edges_iter_owner() {
    let g = any_graph();
    let topo = build(&g);
    let mut it = topo.edges();
    let mut i = 0;
    while i < N {
        let mut k = 0;
        while k < 2 {
            if k < g.cnt[i] {
                let e = it.next();
                assert!(e.is_some(), "C19 edges() yields one edge per gate-chain endpoint");
                let e = e.unwrap();
                assert!(e.from.id == i && e.from.data == i, "C19 every edge starts at the node that owns its start gate");
                assert!(e.to.id == g.dst[i][k], "C19 every edge leads to its destination node");
            }
            k += 1;
        }
        i += 1;
    }
    assert!(it.next().is_none(), "C19 edges() yields no edge twice and none that does not exist");
    kani::cover!(g.cnt[0] == 0 && g.cnt[1] > 0, "REACH edge-less node precedes a node with edges");
    kani::cover!(true, "REACH end of harness");
    std::mem::forget(topo);
}
tp_harness!(c19_edges_iter_attributes_owner, 5, edges_iter_owner());

/// per-node iterator
fn edges_for_node() {
    let g = any_graph();
    let topo = build(&g);
    let n: usize = kani::any();
    kani::assume(n < N);
    let mut it = topo.edges_by_id(n);
    let mut k = 0;
    while k < 2 {
        if k < g.cnt[n] {
            let e = it.next();
            assert!(e.is_some(), "C19 per-node iterator yields the node's edges");
            let e = e.unwrap();
            assert!(e.from.id == n && e.to.id == g.dst[n][k], "C19 per-node edges start at that node and lead to their destinations");
        }
        k += 1;
    }
    assert!(it.next().is_none(), "C19 per-node iterator stops after the node's own edges");
    kani::cover!(true, "REACH end of harness");
    std::mem::forget(topo);
}
tp_harness!(c19_edges_by_node, 5, edges_for_node());

/// bidirectional() == for every edge s->d there is an edge d->s
fn bidirectional_def(maxc: usize) {
    let g = any_graph_max(maxc);
    let topo = build(&g);
    let mut want = true;
    let mut s = 0;
    while s < N {
        let mut d = 0;
        while d < N {
            if g.has_edge(s, d) && !g.has_edge(d, s) {
                want = false;
            }
            d += 1;
        }
        s += 1;
    }
    assert!(topo.bidirectional() == want, "C19 bidirectional matches its definition");
    kani::cover!(want && g.cnt[0] > 0, "REACH non-trivial bidirectional graph");
    kani::cover!(!want, "REACH one-way edge");
    kani::cover!(true, "REACH end of harness");
    std::mem::forget(topo);
}
tp_harness!(c19_bidirectional_definition, 5, bidirectional_def(2));
tp_harness!(c19_bidirectional_definition_deg1, 5, bidirectional_def(1));

/// connected() == every node reaches every node (reflexive-transitive closure)
fn connected_def(maxc: usize) {
    let g = any_graph_max(maxc);
    let topo = build(&g);
    // closure over 3 nodes
    let mut r = [[false; N]; N];
    let mut i = 0;
    while i < N {
        let mut j = 0;
        while j < N {
            r[i][j] = i == j || g.has_edge(i, j);
            j += 1;
        }
        i += 1;
    }
    let mut round = 0;
    while round < 2 {
        let mut i = 0;
        while i < N {
            let mut j = 0;
            while j < N {
                let mut k = 0;
                while k < N {
                    if r[i][k] && r[k][j] {
                        r[i][j] = true;
                    }
                    k += 1;
                }
                j += 1;
            }
            i += 1;
        }
        round += 1;
    }
    let mut want = true;
    let mut i = 0;
    while i < N {
        let mut j = 0;
        while j < N {
            if !r[i][j] {
                want = false;
            }
            j += 1;
        }
        i += 1;
    }
    assert!(topo.connected() == want, "C19 connected matches its definition (every node reaches every node)");
    kani::cover!(want, "REACH strongly connected graph");
    kani::cover!(!want, "REACH unreachable node");
    kani::cover!(true, "REACH end of harness");
    std::mem::forget(topo);
}
tp_harness!(c19_connected_definition, 5, connected_def(2));
tp_harness!(c19_connected_definition_deg1, 5, connected_def(1));
