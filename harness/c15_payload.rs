//! C15 payload harnesses: every payload moved into the queue is dropped exactly once (fetch:
//! by the caller; cancel; queue dropped with events pending) and returned bit-for-bit.
//! Child module of `des_cqueue::stable`.  Allocator stubbed to std::alloc (the free-list
//! allocator itself is decided in c15.rs); real `Drop for CQueue` / `DualLinkedList` / `LocalBox`.
#![allow(dead_code, unused_imports, static_mut_refs, clippy::all)]
use super::verif_pub as vp;
use super::*;
use std::time::Duration;

static mut DROPS: [u8; 3] = [0; 3];

/// 24-byte payload, align 8, with destructor
struct D {
    id: u8,
    val: [u64; 2],
}
impl Drop for D {
    fn drop(&mut self) {
        unsafe {
            DROPS[self.id as usize] += 1;
        }
    }
}

fn d(ns: u32) -> Duration {
    Duration::new(0, ns)
}
fn any_t(lo: u32, hi: u32) -> u32 {
    let t: u32 = kani::any();
    kani::assume(t >= lo && t <= hi);
    t
}
fn drops(i: usize) -> u8 {
    unsafe { DROPS[i] }
}

macro_rules! pl_harness {
    ($name:ident, $unwind:expr, $body:expr) => {
        #[kani::proof]
        #[kani::unwind($unwind)]
        #[kani::stub(CQueue::new, vp::new_small4)]
        #[kani::stub(CQueueLLAllocator::allocate, vp::sys_allocate)]
        #[kani::stub(CQueueLLAllocator::deallocate, vp::sys_deallocate)]
        #[kani::stub(page_size::get, vp::page64)]
        #[kani::stub(std::collections::VecDeque::grow, vp::no_grow)]
        #[kani::stub(std::collections::VecDeque::remove, vp::remove_by_swaps)]
        fn $name() {
            $body
        }
    };
}

/// two payloads at symbolic times; `mode`: 0 = drop queue with both pending,
/// 1 = fetch one then drop queue, 2 = cancel one (symbolic) then drop queue
fn payload2(n: usize, t: u32, tmax: u32, mode: u8) {
    let v0: [u64; 2] = kani::any();
    let v1: [u64; 2] = kani::any();
    let mut q: CQueue<D> = CQueue::new(n, d(t));
    let a = any_t(0, tmax);
    let b = any_t(0, tmax);
    let h0 = q.add(d(a), D { id: 0, val: v0 });
    let h1 = q.add(d(b), D { id: 1, val: v1 });
    assert!(drops(0) == 0 && drops(1) == 0, "C15 adding does not drop the payload");
    if mode == 1 {
        let (p, tm) = q.fetch_next();
        let first = if b < a { 1 } else { 0 };
        assert!(p.id == first, "C15 fetch returns the earliest payload");
        let want = if first == 0 { v0 } else { v1 };
        assert!(p.val[0] == want[0] && p.val[1] == want[1], "C15 payload returned bit-for-bit as inserted");
        assert!(tm == d(if first == 0 { a } else { b }), "C15 payload returned with its timestamp");
        assert!(drops(0) == 0 && drops(1) == 0, "C15 fetch hands the payload to the caller without dropping it");
        drop(p);
        assert!(drops(first as usize) == 1, "C15 fetched payload dropped by the caller exactly once");
    } else if mode == 2 {
        let which: bool = kani::any();
        if which {
            q.cancel(h1);
            assert!(drops(1) == 1 && drops(0) == 0, "C15 cancelled payload dropped exactly once at cancel");
        } else {
            q.cancel(h0);
            assert!(drops(0) == 1 && drops(1) == 0, "C15 cancelled payload dropped exactly once at cancel");
        }
        kani::cover!(a == 0 && !which, "COVER cancel of a zero-bucket payload");
    }
    drop(q);
    assert!(drops(0) == 1 && drops(1) == 1, "C15 every payload dropped exactly once when the queue is dropped with events pending");
    kani::cover!(a == b, "REACH payloads at the same time");
    kani::cover!(true, "REACH end of harness");
}

pl_harness!(c15_payload_pending_n1t2, 5, payload2(1, 2, 3, 0));
pl_harness!(c15_payload_fetch_n1t2, 5, payload2(1, 2, 3, 1));
pl_harness!(c15_payload_cancel_n1t2, 5, payload2(1, 2, 3, 2));
pl_harness!(c15_payload_pending_n2t2, 5, payload2(2, 2, 3, 0));
pl_harness!(c15_payload_fetch_n2t2, 5, payload2(2, 2, 3, 1));
pl_harness!(c15_payload_cancel_n2t2, 5, payload2(2, 2, 3, 2));

/// u8 payload without destructor and a 16-aligned payload round trip (one event)
#[repr(align(16))]
#[derive(Clone, Copy)]
struct A16([u8; 16]);

fn roundtrip_types() {
    let mut q: CQueue<A16> = CQueue::new(1, d(2));
    let v: [u8; 16] = kani::any();
    let a = any_t(0, 3);
    q.add(d(a), A16(v));
    let (p, tm) = q.fetch_next();
    assert!(u128::from_le_bytes(p.0) == u128::from_le_bytes(v) && tm == d(a), "C15 16-aligned payload returned bit-for-bit as inserted");
    assert!((&p as *const A16 as usize) % 16 == 0, "C15 16-aligned payload type");
    drop(q);
    let mut q: CQueue<u8> = CQueue::new(1, d(2));
    let x: u8 = kani::any();
    q.add(d(a), x);
    let (p, _) = q.fetch_next();
    assert!(p == x, "C15 1-byte payload returned bit-for-bit as inserted");
    drop(q);
    kani::cover!(true, "REACH end of harness");
}
pl_harness!(c15_payload_types_roundtrip, 5, roundtrip_types());
