#!/bin/bash
# setup_cmd: nothing is built ahead of time (every check re-encodes from /repo's working tree);
# only verify that the pre-installed tools are present.
set -e
cargo kani --version
cbmc --version
python3 --version
test -x /usr/bin/time
test -x "$(command -v rsync)"
mkdir -p /verif/evidence /verif/replay
echo setup ok
