// Demonstration for the C18 finding: copy to des-net-utils/tests/c18_typclause_unclosed.rs and run
//   cargo test -p des-net-utils --test c18_typclause_unclosed --offline
// Before the fix the parser panics (assert!(rem.ends_with(')'))), after it returns Err.
use des_net_utils::ndl::def::TypClause;
use std::str::FromStr;

#[test]
fn unclosed_type_clause_is_an_error_not_a_crash() {
    let r = std::panic::catch_unwind(|| TypClause::<String>::from_str("A(b"));
    assert!(r.is_ok(), "TypClause::from_str panicked on 'A(b'");
    assert!(r.unwrap().is_err());
}
