#!/bin/bash
# Runs the repository's own test suite with the verification guard OFF.
# (The guard is cfg(kani), which only `cargo kani` sets; /repo carries no hook code.)
cd /repo || exit 2
export CARGO_NET_OFFLINE=true
if cargo nextest --version >/dev/null 2>&1; then
  exec cargo nextest run --workspace --no-fail-fast --offline
else
  exec cargo test --workspace --no-fail-fast --offline
fi
